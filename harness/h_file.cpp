// Engine for C17: File round-trips bytes exactly and reports sizes and errors
// truthfully. Oracle = byte vector + position model, cross-checked against
// std::filesystem / std::ifstream. Everything happens in a private directory
// below the current directory (the driver's run directory), removed at exit.
#include "../rt/rt.h"

#include <tulz/Exception.h>
#include <tulz/File.h>

#include <filesystem>
#include <fstream>
#include <fcntl.h>
#include <unistd.h>

namespace fs = std::filesystem;
using tulz::File;
using tulz::Path;

namespace {

struct Cover {
    uint64_t files = 0, bytesWritten = 0, bytesRead = 0, writeCalls = 0, appends = 0, truncations = 0, seeks = 0, sizeCalls = 0, readCalls = 0;
    uint64_t reopens = 0, readerReuses = 0, sizeCallsWhileWriting = 0, sparseFiles = 0, descriptorChecks = 0, seeksPastEnd = 0, twoFilesAtOnce = 0;
    uint64_t missingKinds[4] = {0, 0, 0, 0};
    uint64_t errorProbes = 0, emptyFiles = 0, withNul = 0, withFF = 0, withCRLF = 0, large = 0, nontrivialCases = 0;
    std::map<std::string, uint64_t> modes, classes;
    std::vector<uint64_t> fps;
    std::vector<std::string> samples;
} C;

std::string gDesc;
bool gCaseFailed = false;

void fail(const char *rule, const char *site, const std::string &d) {
    gCaseFailed = true;
    rt::violation("C17", rule, site, d + " | case: " + gDesc);
}

std::string content(rt::Rng &rng, size_t n, std::string &cls) {
    std::string s;
    s.reserve(n);
    unsigned kind = (unsigned) rng.below(6);
    static const char *names[] = {"random-bytes", "hostile-mix", "all-0xFF", "crlf-runs", "text-with-nul", "ctrl-z-and-eof-bytes"};
    cls = names[kind];
    for (size_t i = 0; i < n; ++i) {
        unsigned char c;
        switch (kind) {
            case 0: c = (unsigned char) rng.below(256); break;
            case 1: { static const unsigned char h[] = {0, 0xff, 0x1a, '\r', '\n', 0x7f, 0x80, 'a'}; c = rng.chance(700) ? h[rng.below(8)] : (unsigned char) rng.below(256); break; }
            case 2: c = 0xff; break;
            case 3: { unsigned r = (unsigned) rng.below(10); c = r < 3 ? '\r' : r < 6 ? '\n' : (unsigned char) ('a' + rng.below(26)); if (r == 9 && i + 1 < n) { s += '\r'; c = '\n'; ++i; } break; }
            case 4: c = rng.chance(100) ? 0 : (unsigned char) (' ' + rng.below(95)); break;
            default: c = rng.chance(300) ? 0x1a : rng.chance(300) ? 0xff : (unsigned char) rng.below(256); break;
        }
        s += (char) c;
    }
    if (s.size() > n) s.resize(n);
    return s;
}

bool sameBytes(const tulz::Array<tulz::byte> &a, const std::string &m) {
    return a.size() == m.size() && (m.empty() || memcmp(a.array(), m.data(), m.size()) == 0);
}

std::string firstDiff(const void *got, size_t gotN, const std::string &m) {
    const unsigned char *g = (const unsigned char *) got;
    size_t n = std::min(gotN, m.size());
    for (size_t i = 0; i < n; ++i)
        if (g[i] != (unsigned char) m[i]) {
            char b[120];
            snprintf(b, sizeof b, "first difference at offset %zu: got 0x%02x, written 0x%02x (lengths %zu / %zu)", i, g[i], (unsigned char) m[i], gotN, m.size());
            return b;
        }
    return "lengths differ: got " + std::to_string(gotN) + " bytes, written " + std::to_string(m.size());
}

// writes `data` through the three overloads in random splits; returns false on a short count
// `before`: bytes the file held when this session began (0 in write mode, the old content in append mode), or
// (size_t)-1 if size() is not to be probed while writing
bool writeAll(File &f, const std::string &data, rt::Rng &rng, const char *site, size_t before = (size_t) -1, bool appendMode = false) {
    size_t pos = 0;
    int calls = 0;
    while (pos < data.size() || calls == 0) {
        if (before != (size_t) -1 && rng.chance(150)) {
            // size() in the middle of a writing session counts the bytes handed over so far, flushed or not, and the
            // next write continues where the last one ended
            ++C.sizeCallsWhileWriting;
            long t0 = appendMode ? 0 : f.tell();
            size_t got = f.size();
            if (got != before + pos) { fail("wrong-size", site, "size() = " + std::to_string(got) + " in the middle of a writing session, the file holds " + std::to_string(before) + " + " + std::to_string(pos) + " bytes written so far"); return false; }
            if (!appendMode && (f.tell() != t0 || t0 != (long) pos)) { fail("size-moved-position", site, "position " + std::to_string(t0) + " before size(), " + std::to_string(f.tell()) + " after, " + std::to_string(pos) + " bytes written"); return false; }
        }
        size_t left = data.size() - pos;
        size_t n = left == 0 ? 0 : (rng.chance(200) ? left : 1 + rng.below(std::min<size_t>(left, rng.chance(500) ? 17 : 5000)));
        unsigned how = (unsigned) rng.below(4);
        size_t wrote, want;
        if (how == 0) { wrote = f.write(data.data() + pos, n); want = n; }
        else if (how == 1 && n >= 2 && n % 2 == 0) { wrote = f.write(data.data() + pos, n / 2, 2); want = n / 2; }   // size x elementSize
        else if (how == 2) { tulz::Array<tulz::byte> a((tulz::byte *) data.data() + pos, n); wrote = f.write(a); want = n; }
        else { wrote = f.write(data.substr(pos, n)); want = n; }
        ++C.writeCalls;
        if (wrote != want) { fail("short-write", site, "write returned " + std::to_string(wrote) + " for " + std::to_string(want) + " element(s)"); return false; }
        pos += n;
        ++calls;
        if (left == 0) break;
    }
    C.bytesWritten += data.size();
    return true;
}

void verifyOnDisk(const std::string &path, const std::string &model, const char *site) {
    std::error_code ec;
    auto sz = fs::file_size(path, ec);
    if (ec) return fail("file-missing", site, "file does not exist after close");
    if (sz != model.size()) return fail("wrong-size-on-disk", site, "file has " + std::to_string(sz) + " bytes, " + std::to_string(model.size()) + " were written");
    std::ifstream in(path, std::ios::binary);
    std::string disk((std::istreambuf_iterator<char>(in)), std::istreambuf_iterator<char>());
    if (disk != model) return fail("wrong-bytes-on-disk", site, firstDiff(disk.data(), disk.size(), model));
}

void readBack(const std::string &path, const std::string &model, rt::Rng &rng, File::Mode mode) {
    const char *site = mode == File::Mode::Read ? "read-binary" : "read-text";
    File f(path, mode);
    if (!f.isOpen() || f.getMode() != mode) return fail("open-state", site, "isOpen()/getMode() wrong after open");
    long pos = 0;
    const long size = (long) model.size();
    int steps = (int) rng.range(3, 14);
    for (int s = 0; s < steps && !gCaseFailed; ++s) {
        unsigned r = (unsigned) rng.below(100);
        if (r < 22) {
            ++C.sizeCalls;
            long before = f.tell();
            size_t got = f.size();
            long after = f.tell();
            if (got != model.size()) return fail("wrong-size", site, "size() = " + std::to_string(got) + ", file has " + std::to_string(model.size()) + " bytes");
            if (before != after || after != pos) return fail("size-moved-position", site, "position " + std::to_string(before) + " before size(), " + std::to_string(after) + " after, model " + std::to_string(pos));
        } else if (r < 45) {
            ++C.seeks;
            unsigned o = (unsigned) rng.below(3);
            long target = size ? (long) rng.below((uint64_t) size + 1) : 0;
            if (rng.chance(120)) { target = size + 1 + (long) rng.below(200); ++C.seeksPastEnd; }   // a position beyond the end is a valid position
            long off;
            File::Origin org;
            if (o == 0) { org = File::Origin::Start; off = target; }
            else if (o == 1) { org = File::Origin::Current; off = target - pos; }
            else { org = File::Origin::End; off = target - size; }
            if (f.seek(off, org) != 0) return fail("seek-failed", site, "seek inside the file failed");
            pos = target;
            if (f.tell() != pos) return fail("wrong-tell", site, "tell() = " + std::to_string(f.tell()) + " after seek to " + std::to_string(pos));
        } else if (r < 70) {
            ++C.readCalls;
            size_t want = rng.chance(200) ? (size_t) size + 10 : rng.below(300);
            std::string buf(want + 8, '\x5a');
            size_t got = rng.chance(500) ? f.read(buf.data(), 1, want) : f.read(buf.data(), want ? want : 1, want ? 1 : 0) * want;
            // second form reads one element of `want` bytes: all or nothing
            size_t avail = (size_t) (size - pos);
            (void) avail;
            long newPos = f.tell();
            size_t moved = (size_t) (newPos - pos);
            if (newPos < pos || newPos > std::max(size, pos)) return fail("wrong-tell", site, "position left the file during read(buffer)");
            if (pos <= size && memcmp(buf.data(), model.data() + pos, moved) != 0) return fail("wrong-bytes", site, "read(buffer, ...) " + firstDiff(buf.data(), moved, model.substr((size_t) std::min(pos, size), moved)));
            if (got > want) return fail("wrong-count", site, "read(buffer) returned more than requested");
            for (size_t k = moved; k < buf.size(); ++k) if (buf[k] != '\x5a') { fail("buffer-overrun", site, "read(buffer) wrote past the bytes it reported"); break; }
            C.bytesRead += moved;
            pos = newPos;
        } else if (r < 85) {
            ++C.readCalls;
            auto a = f.read();
            if (!sameBytes(a, model)) return fail("wrong-bytes", site, "read() " + firstDiff(a.array(), a.size(), model));
            pos = f.tell();
            if (pos != size) return fail("wrong-tell", site, "position after read() is " + std::to_string(pos) + ", file size " + std::to_string(size));
            C.bytesRead += model.size();
        } else {
            ++C.readCalls;
            std::string sgot = f.readStr();
            if (sgot != model) return fail("wrong-bytes", site, "readStr() " + firstDiff(sgot.data(), sgot.size(), model));
            pos = f.tell();
            C.bytesRead += model.size();
        }
    }
    if (gCaseFailed) return;
    // always finish with the three whole-file readers
    auto a = f.read();
    if (!sameBytes(a, model)) return fail("wrong-bytes", site, "read() " + firstDiff(a.array(), a.size(), model));
    if (f.readStr() != model) return fail("wrong-bytes", site, "readStr() differs from what was written");
    if (f.size() != model.size()) return fail("wrong-size", site, "size() after reading");
    f.seek(0, File::Origin::Start);
    std::string all;
    char chunk[777];
    size_t n;
    while ((n = f.read(chunk, 1, sizeof chunk)) > 0) all.append(chunk, n);
    if (all != model) return fail("wrong-bytes", site, "chunked read(buffer) " + firstDiff(all.data(), all.size(), model));
    if (rng.chance(500)) f.close();
    if (rng.chance(500) && f.isOpen()) { f.close(); if (f.isOpen()) fail("open-state", site, "isOpen() after close()"); }
}

void errorProbes(const std::string &dir, rt::Rng &rng) {
    const char *site = "open-errors";
    // a file that does not exist - plainly, below a regular file (ENOTDIR), behind an over-long component
    // (ENAMETOOLONG), in a missing directory
    std::string missing = dir + "/does-not-exist-" + std::to_string(rng.below(1000));
    unsigned mk = (unsigned) rng.below(4);
    if (mk == 1) { std::string reg = dir + "/regular-for-enotdir.bin"; { std::ofstream o(reg); o << "x"; } missing = reg + (rng.chance(500) ? "/child.txt" : "/"); }
    else if (mk == 2) missing = dir + "/" + std::string(300, 'n');
    else if (mk == 3) missing = dir + "/no-such-dir/file.bin";
    ++C.missingKinds[mk];
    for (File::Mode m : {File::Mode::Read, File::Mode::ReadText}) {
        ++C.errorProbes;
        try {
            File f(missing, m);
            return fail("missing-file-opened", site, "opening the missing file '" + missing.substr(dir.size(), 60) + "' for reading did not throw (isOpen() = " + (f.isOpen() ? "true" : "false") + ")");
        } catch (const tulz::Exception &e) {
            if (e.type != Path::NotFound) return fail("wrong-error", site, "missing file: exception type " + std::to_string(e.type) + ", expected NotFound");
            (void) e.what();   // (exercised for memory safety; its text is not part of the statement)
        } catch (...) { return fail("wrong-error", site, "missing file: foreign exception type"); }
    }
    static const File::Mode all[] = {File::Mode::Read, File::Mode::ReadText, File::Mode::Write, File::Mode::WriteText, File::Mode::Append, File::Mode::AppendText};
    File::Mode m = all[rng.below(6)];
    ++C.errorProbes;
    try {
        File f(rng.chance(500) ? dir : dir + "/", m);
        return fail("directory-opened", site, "opening a directory did not throw");
    } catch (const tulz::Exception &e) {
        if (e.type != Path::NotFile) return fail("wrong-error", site, "directory: exception type " + std::to_string(e.type) + ", expected NotFile");
    } catch (...) { return fail("wrong-error", site, "directory: foreign exception type"); }
    std::error_code ec2;
    if (fs::exists(missing, ec2)) fail("missing-file-created", site, "a failed open for reading created the file");
    // corners of the interface (memory safety only): closing a File that was never opened, an invalid mode
    if (rng.chance(300)) {
        File never;
        never.close();
        if (never.isOpen()) fail("open-state", site, "a File that was never opened reports isOpen()");
        try { File bad(dir + "/never-created.bin", File::Mode::None); } catch (...) {}   // outside the statement: memory safety only
        fs::remove(dir + "/never-created.bin", ec2);
    }
}


size_t openDescriptors() {
    size_t n = 0;
    std::error_code ec;
    for (auto it = fs::directory_iterator("/proc/self/fd", ec); !ec && it != fs::directory_iterator(); it.increment(ec)) ++n;
    return n;
}

// A sparse file of more than 2 GiB (more than 4 GiB in a third of the runs) with marker bytes at a few offsets: positions
// and sizes beyond 2^31 and 2^32 must come through size(), tell(), seek() and read(buffer) unharmed.
void bigFileCase(rt::Rng &rng, const std::string &dir) {
    const char *site = "sparse-file";
    std::string path = dir + "/sparse.bin";
    uint64_t size = (rng.chance(330) ? (5ULL << 30) : (2ULL << 30)) + rng.range(20000, 100000);
    int fd = ::open(path.c_str(), O_CREAT | O_TRUNC | O_WRONLY, 0600);
    if (fd < 0 || ftruncate(fd, (off_t) size) != 0) { if (fd >= 0) ::close(fd); return; }   // no sparse files here: nothing to judge
    std::vector<uint64_t> marks = {0, (1ULL << 31) - 3, (1ULL << 31) + 64 + rng.below(5000), size - 40};   // (markers are at most 20 bytes and do not overlap)
    if (size > (1ULL << 32)) { marks.push_back((1ULL << 32) - 2); marks.push_back((1ULL << 32) + 64 + rng.below(5000)); }
    auto marker = [](uint64_t off) { return "MARK@" + std::to_string(off) + ";"; };
    for (uint64_t m : marks) { std::string t = marker(m); if (pwrite(fd, t.data(), t.size(), (off_t) m) != (ssize_t) t.size()) { ::close(fd); fs::remove(path); return; } }
    ::close(fd);
    {
        File f(path, rng.chance(500) ? File::Mode::Read : File::Mode::ReadText);
        if (f.size() != size) fail("wrong-size", site, "size() = " + std::to_string(f.size()) + " for a sparse file of " + std::to_string(size) + " bytes");
        for (int k = 0; k < 6 && !gCaseFailed; ++k) {
            uint64_t m = marks[rng.below(marks.size())];
            unsigned how = (unsigned) rng.below(3);
            int rc = how == 0 ? f.seek((long) m, File::Origin::Start) : how == 1 ? f.seek((long) m - (long) size, File::Origin::End) : f.seek((long) m - f.tell(), File::Origin::Current);
            if (rc != 0 || f.tell() != (long) m) { fail("wrong-tell", site, "seek to offset " + std::to_string(m) + " returned " + std::to_string(rc) + ", tell() = " + std::to_string(f.tell())); break; }
            if (rng.chance(700)) {
                ++C.sizeCalls;
                size_t got = f.size();
                if (got != size) { fail("wrong-size", site, "size() = " + std::to_string(got) + " at position " + std::to_string(m) + " of a sparse file of " + std::to_string(size) + " bytes"); break; }
                if (f.tell() != (long) m) { fail("size-moved-position", site, "position " + std::to_string(m) + " became " + std::to_string(f.tell()) + " after size() (file of " + std::to_string(size) + " bytes)"); break; }
            }
            std::string want = marker(m), buf(want.size(), '\0');
            size_t got = f.read(buf.data(), 1, buf.size());
            if (got != buf.size() || buf != want) { fail("wrong-bytes", site, "read(buffer) at offset " + std::to_string(m) + " returned " + std::to_string(got) + " byte(s) '" + buf.substr(0, 24) + "', expected '" + want + "'"); break; }
            if (f.tell() != (long) (m + want.size())) { fail("wrong-tell", site, "tell() after reading at offset " + std::to_string(m)); break; }
        }
    }
    fs::remove(path);
    ++C.sparseFiles;
}

void runCase(uint64_t c, rt::Rng rng, const std::string &dir, long maxLen) {
    std::string cls;
    size_t len;
    unsigned r = (unsigned) rng.below(100);
    if (r < 8) len = 0;
    else if (r < 30) len = rng.below(64);
    else if (r < 80) len = rng.below(9000);
    else len = rng.below((uint64_t) maxLen + 1);
    std::string data = content(rng, len, cls);
    bool text = rng.chance(500);
    std::string path = dir + "/f" + std::to_string(c % 7) + (rng.chance(300) ? " with space.bin" : ".bin");
    char d[200];
    snprintf(d, sizeof d, "content=%s length=%zu %s path='%s'", cls.c_str(), len, text ? "text-modes" : "binary-modes", path.c_str());
    gDesc = d;
    rt::crumb("%s", d);
    ++C.classes[cls];
    ++C.modes[text ? "WriteText/AppendText/ReadText" : "Write/Append/Read"];
    if (len == 0) ++C.emptyFiles;
    if (len > 1000000) ++C.large;
    if (data.find('\0') != std::string::npos) ++C.withNul;
    if (data.find('\xff') != std::string::npos) ++C.withFF;
    if (data.find("\r\n") != std::string::npos) ++C.withCRLF;

    // a pre-existing longer file: write mode must truncate it
    bool pre = rng.chance(400);
    if (pre) { std::ofstream o(path, std::ios::binary); o << std::string(len + 50, 'P'); ++C.truncations; }
    else fs::remove(path);

    // split: first part in write mode, the rest appended in 0-2 further sessions
    size_t cut = len ? rng.below(len + 1) : 0;
    std::string model;
    {
        File f;
        f.open(Path(path), text ? File::Mode::WriteText : File::Mode::Write);
        if (!f.isOpen()) return fail("open-state", "write", "open for writing failed");
        if (!writeAll(f, data.substr(0, cut), rng, "write", rng.chance(500) ? 0 : (size_t) -1)) return;
        model = data.substr(0, cut);
        if (rng.chance(300)) f.flush();
        if (rng.chance(500)) f.close();   // otherwise the destructor closes
    }
    verifyOnDisk(path, model, "write");
    if (gCaseFailed) return;
    size_t pos = cut;
    int sessions = (int) rng.below(3);
    if (cut < len && sessions == 0) sessions = 1;
    for (int s = 0; s < sessions && !gCaseFailed; ++s) {
        size_t n = s == sessions - 1 ? len - pos : rng.below(len - pos + 1);
        bool fresh = false;
        if (model.empty() && rng.chance(300)) { fs::remove(path); fresh = true; }   // append creates a missing file
        (void) fresh;
        File f(path, (text != rng.chance(150)) ? File::Mode::AppendText : File::Mode::Append);
        if (!writeAll(f, data.substr(pos, n), rng, "append", rng.chance(500) ? model.size() : (size_t) -1, true)) return;
        model += data.substr(pos, n);
        pos += n;
        ++C.appends;
        f.close();
        verifyOnDisk(path, model, "append");
    }
    if (gCaseFailed) return;
    readBack(path, model, rng, File::Mode::Read);
    if (!gCaseFailed) readBack(path, model, rng, File::Mode::ReadText);
    if (!gCaseFailed && rng.chance(250)) errorProbes(dir, rng);
    // a File object can be re-opened on another path: the first stream is closed
    if (!gCaseFailed && rng.chance(150)) {
        File f(path, File::Mode::Read);
        std::string other = dir + "/other.bin";
        { File w(other, File::Mode::Write); w.write(std::string("xyz")); }
        f.open(Path(other), File::Mode::Read);
        if (f.readStr() != "xyz") fail("wrong-bytes", "reopen", "re-opened File reads the wrong file");
    }
    // one File object used for several sessions on the SAME path, without close() and without flush in between:
    // open() has to finish the old stream before the new one truncates or appends
    if (!gCaseFailed && rng.chance(200)) {
        std::string a = data.substr(0, std::min<size_t>(data.size(), 1 + rng.below(3000))), b = content(rng, rng.below(40), cls);
        std::string p2 = dir + "/reopen.bin";
        fs::remove(p2);
        File f(p2, File::Mode::Write);
        f.write(a);
        bool append = rng.chance(400);
        f.open(Path(p2), append ? File::Mode::Append : File::Mode::Write);
        f.write(b);
        f.close();
        verifyOnDisk(p2, append ? a + b : b, append ? "reopen-append" : "reopen-write");
        ++C.reopens;
    }
    // two File objects open at the same time on one thread, used in turns: a chunked copy from one into the other and
    // two writers fed alternately; what one of them buffers is its own
    if (!gCaseFailed && rng.chance(200)) {
        std::string src = dir + "/pair-src.bin", dst = dir + "/pair-dst.bin", w1 = dir + "/pair-w1.bin", w2 = dir + "/pair-w2.bin";
        std::string body = content(rng, 1 + rng.below(200000), cls);
        { File w(src, File::Mode::Write); w.write(body); }
        {
            File in(src, rng.chance(500) ? File::Mode::Read : File::Mode::ReadText), out(dst, File::Mode::Write);
            std::vector<char> chunk(1 + rng.below(9000));
            size_t n;
            while ((n = in.read(chunk.data(), 1, chunk.size())) > 0) out.write(chunk.data(), n);
        }
        verifyOnDisk(dst, body, "two-files-copy");
        if (!gCaseFailed) {
            std::string a, b;
            {
                File fa(w1, File::Mode::Write), fb(w2, rng.chance(500) ? File::Mode::Write : File::Mode::WriteText);
                int turns = (int) rng.range(2, 40);
                for (int t = 0; t < turns; ++t) {
                    std::string pa(1 + rng.below(3000), (char) ('a' + t % 26)), pb(1 + rng.below(3000), (char) ('A' + t % 26));
                    fa.write(pa); a += pa;
                    fb.write(pb); b += pb;
                }
            }
            verifyOnDisk(w1, a, "two-files-writers");
            if (!gCaseFailed) verifyOnDisk(w2, b, "two-files-writers");
        }
        ++C.twoFilesAtOnce;
    }
    // one File object reads two different files one after the other: nothing of the first may stick
    if (!gCaseFailed && rng.chance(200)) {
        std::string pa = dir + "/reuse-a.bin", pb = dir + "/reuse-b.bin";
        std::string ca = content(rng, 1 + rng.below(400), cls), cb = content(rng, rng.chance(500) ? ca.size() + 1 + rng.below(400) : rng.below(ca.size()), cls);
        { File w(pa, File::Mode::Write); w.write(ca); }
        { File w(pb, File::Mode::Write); w.write(cb); }
        File::Mode rm = rng.chance(500) ? File::Mode::Read : File::Mode::ReadText;
        File f(pa, rm);
        if (f.size() != ca.size() || f.readStr() != ca) fail("wrong-bytes", "reader-reuse", "first file read wrongly");
        f.open(Path(pb), rm);
        if (!gCaseFailed && f.size() != cb.size()) fail("wrong-size", "reader-reuse", "size() = " + std::to_string(f.size()) + " for the second file read through the same File object, which has " + std::to_string(cb.size()) + " bytes (the first had " + std::to_string(ca.size()) + ")");
        if (!gCaseFailed) { std::string got = f.readStr(); if (got != cb) fail("wrong-bytes", "reader-reuse", "second file read through the same File object: " + firstDiff(got.data(), got.size(), cb)); }
        ++C.readerReuses;
    }
    if (!gCaseFailed && rng.chance((unsigned) rt::optInt("sparse", 12))) bigFileCase(rng, dir);
    ++C.files;
    if (len > 0) {
        ++C.nontrivialCases;
        rt::Hash h;
        h.add(len); h.add(cut); h.add(text); h.add(std::hash<std::string>{}(data));
        C.fps.push_back(h.get());
        if (C.samples.size() < 5 && c % 11 == 0) C.samples.push_back(rt::Json().kv("case", c).kv("what", d).kv("firstWriteBytes", (uint64_t) cut).kv("appendSessions", sessions).str());
    }
}

} // namespace

int main(int argc, char **argv) {
    rt::init(argc, argv);
    rt::cpuBudgetPerCase(240);   // single-threaded, deterministic: a case that burns 240 s of CPU time does not terminate
    // "Can't close file" etc. go to std::cerr; keep fd 2 for the sanitizers
    std::string dir = fs::absolute("h_file_" + std::to_string(getpid())).string();
    fs::create_directories(dir);
    long maxLen = rt::optInt("maxlen", 65536);
    for (uint64_t c = rt::st().from; c < rt::st().from + rt::st().count; ++c) {
        rt::setCase(c);
        gCaseFailed = false;
        size_t fdsBefore = openDescriptors();
        runCase(c, rt::Rng(rt::mix(rt::st().seed, c)), dir, maxLen);
        // every File of the case is closed or destroyed by now, failed opens included. A descriptor that stays behind per
        // failed open ends, a thousand failures later, in opens that fail or succeed for the wrong reason
        size_t fdsAfter = openDescriptors();
        ++C.descriptorChecks;
        if (!gCaseFailed && fdsAfter > fdsBefore)
            fail("descriptor-leak", "case", std::to_string(fdsAfter - fdsBefore) + " file descriptor(s) stayed open after all File objects of the case were closed or destroyed (" + std::to_string(fdsBefore) + " -> " + std::to_string(fdsAfter) + ")");
    }
    std::error_code ec;
    fs::remove_all(dir, ec);
    rt::dumpFingerprints(C.fps);
    rt::finish(rt::Json().kv("engine", "h_file").kv("files", C.files).kv("bytesWritten", C.bytesWritten).kv("bytesRead", C.bytesRead)
                   .kv("writeCalls", C.writeCalls).kv("appendSessions", C.appends).kv("truncations", C.truncations).kv("seeks", C.seeks)
                   .kv("sizeCalls", C.sizeCalls).kv("sizeCallsWhileWriting", C.sizeCallsWhileWriting).kv("sparseFilesOver2GiB", C.sparseFiles).kv("descriptorChecks", C.descriptorChecks).kv("seeksPastEnd", C.seeksPastEnd).kv("twoFilesOpenAtOnce", C.twoFilesAtOnce).kv("readCalls", C.readCalls).kv("errorProbes", C.errorProbes).kv("reopenedOnSamePath", C.reopens).kv("readerObjectsReused", C.readerReuses).kv("missingBelowRegularFile", C.missingKinds[1]).kv("missingOverlongName", C.missingKinds[2]).kv("missingInMissingDirectory", C.missingKinds[3]).kv("emptyFiles", C.emptyFiles)
                   .kv("filesWithNul", C.withNul).kv("filesWith0xFF", C.withFF).kv("filesWithCRLF", C.withCRLF).kv("filesOver1MB", C.large)
                   .kv("nontrivialCases", C.nontrivialCases).raw("contentClasses", rt::jsonCounts(C.classes)).raw("modes", rt::jsonCounts(C.modes))
                   .raw("samples", rt::jsonArray(C.samples, false)));
    return 0;
}
