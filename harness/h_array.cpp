// Engine for C14: tulz::Array against a std::vector model, every construction
// path, copy/move/assign/swap/resize/element writes/destruction, with the
// lifetime registry for class-type elements and ASan/LSan for the storage.
#include "../rt/rt.h"
#include "../rt/tracked.h"
#include "../rt/elems.h"

#include <tulz/container/Array.h>

#include <memory>
#include <set>
#include <vector>
#include <algorithm>
#include <any>
#include <sys/mman.h>

using rt::Elem;
using rt::LifeRegistry;
using rt::Tracked;

namespace {

struct Cover {
    std::map<std::string, uint64_t> opCount;
    std::map<std::string, uint64_t> lengths;   // buckets of lengths at which arrays were constructed
    uint64_t histories = 0, ops = 0, nontrivialCases = 0, compared = 0, zeroLength = 0, hugeArrays = 0, hugeSkipped = 0, nestedElementRuns = 0;
    std::vector<uint64_t> fps;
    std::vector<std::string> samples;
} C;

std::string gHist;
bool gCaseFailed = false;

std::string histTail() { return "history: " + (gHist.size() > 1500 ? "..." + gHist.substr(gHist.size() - 1500) : gHist); }

void fail(const char *rule, const char *site, const std::string &d) {
    gCaseFailed = true;
    rt::violation("C14", rule, site, d + " | " + histTail());
}

// what reading back an element made from v gives (bytes wrap, the two double zeros decode to sentinels)
template<class T> int64_t normv(int64_t v) {
    if constexpr (std::is_base_of_v<Tracked, T>) return v;
    else return Elem<T>::val(Elem<T>::make(v));
}

template<class T>
struct Runner {
    using Arr = tulz::Array<T>;
    using E = Elem<T>;
    static constexpr bool kClass = std::is_class_v<T>;
    static constexpr bool kTracked = std::is_base_of_v<Tracked, T>;
    static constexpr bool kString = std::is_same_v<T, std::string>;

    struct Slot {
        std::unique_ptr<Arr> a;
        std::vector<int64_t> m;
        std::vector<char> known;   // arithmetic elements added by resize(n)/Array(n) are indeterminate: not read
        bool movedFrom = false;
        size_t hidden = 0;
    };
    Slot s[4];
    rt::Rng rng;
    int64_t nextVal = 1;
    bool nontrivial = false;
    rt::Hash hist;
    const char *op = "";

    explicit Runner(uint64_t seed) : rng(seed) {}

    void note(const char *o) {
        op = o;
        LifeRegistry::get().site = o;
        ++C.opCount[o];
        ++C.ops;
    }
    void log(const std::string &t) {
        gHist += t;
        gHist += ' ';
        for (char c : t) hist.add((uint64_t) c);
    }
    int64_t defaultValue() const {
        if constexpr (kTracked) return Tracked::kDefault;
        else return E::val(T());   // what a value-initialised element reads as (only compared for class types)
    }

    void check(int i) {
        Slot &x = s[i];
        if (!x.a || x.movedFrom) return;
        Arr &a = *x.a;
        const Arr &ca = a;
        std::string w = "array#" + std::to_string(i) + " after " + op + ": ";
        size_t n = x.m.size();
        if (a.size() != n) return fail("model-mismatch", op, w + "size() " + std::to_string(a.size()) + " != model " + std::to_string(n));
        if (a.empty() != (n == 0)) return fail("model-mismatch", op, w + "empty() wrong");
        for (size_t k = 0; k < n; ++k) {
            if (!x.known[k]) continue;
            int64_t got = E::val(ca[k]);
            if (got != x.m[k]) return fail("model-mismatch", op, w + "element [" + std::to_string(k) + "] = " + std::to_string(got) + ", model " + std::to_string(x.m[k]));
            if (&ca[k] != ca.array() + k) return fail("model-mismatch", op, w + "operator[] does not address array()+k");
        }
        ++C.compared;
        size_t k = 0;
        for (T &e : a) {
            if (k >= n) break;
            if (x.known[k] && E::val(e) != x.m[k]) return fail("model-mismatch", "iterate", w + "mutable iteration differs at " + std::to_string(k));
            ++k;
        }
        if (k != n) return fail("model-mismatch", "iterate", w + "iteration length");
        k = 0;
        for (auto it = ca.cbegin(); it != ca.cend(); ++it, ++k)
            if (k < n && x.known[k] && E::val(*it) != x.m[k]) return fail("model-mismatch", "iterate", w + "const iteration differs at " + std::to_string(k));
        if (k != n || (size_t) (a.end() - a.begin()) != n) return fail("model-mismatch", "iterate", w + "const iteration length");
        if (n) {
            if (&a.front() != &a[0] || &a.back() != &a[n - 1]) return fail("model-mismatch", op, w + "front()/back() do not alias the ends");
        }
    }

    void reconcile() {
        for (int i = 0; i < 4; ++i) check(i);
        // independence: no two arrays share storage
        for (int i = 0; i < 4; ++i)
            for (int j = i + 1; j < 4; ++j)
                if (s[i].a && s[j].a && !s[i].movedFrom && !s[j].movedFrom && s[i].m.size() && s[j].m.size() &&
                    s[i].a->array() == s[j].a->array())
                    return fail("shared-storage", op, "two arrays share the same storage after " + std::string(op));
        if constexpr (kTracked) {
            auto &R = LifeRegistry::get();
            int64_t lo = 0, hi = 0;
            std::set<uint64_t> oids;
            for (int i = 0; i < 4; ++i) {
                Slot &x = s[i];
                if (!x.a) continue;
                if (x.movedFrom) { hi += (int64_t) x.hidden; continue; }
                lo += (int64_t) x.m.size();
                const Arr &ca = *x.a;
                for (size_t k = 0; k < x.m.size(); ++k) {
                    if (!ca[k].isLive()) return fail("element-not-live", op, "array#" + std::to_string(i) + " element [" + std::to_string(k) + "] does not hold a live value after " + op);
                    if (!oids.insert(ca[k].oid()).second) return fail("element-duplicated", op, "two slots hold the same object after " + std::string(op));
                }
            }
            hi += lo;
            if (R.live < lo) fail("live-value-destroyed", op, "registry holds " + std::to_string(R.live) + " live values, the arrays must hold " + std::to_string(lo));
            else if (R.live > hi) fail("live-value-abandoned", op, std::to_string(R.live - hi) + " live value(s) are no longer reachable from any array after " + op);
        }
    }

    int pickValid(bool nonEmpty = false) {
        int cand[4], n = 0;
        for (int i = 0; i < 4; ++i) if (s[i].a && !s[i].movedFrom && (!nonEmpty || s[i].m.size())) cand[n++] = i;
        return n ? cand[rng.below(n)] : -1;
    }
    int pickAny() {
        int cand[4], n = 0;
        for (int i = 0; i < 4; ++i) if (s[i].a) cand[n++] = i;
        return n ? cand[rng.below(n)] : -1;
    }
    int pickFree() {
        for (int i = 0; i < 4; ++i) if (!s[i].a) return i;
        return -1;
    }
    size_t pickLen() {
        unsigned r = (unsigned) rng.below(100);
        if (r < 12) return 0;
        if (r < 30) return 1;
        if (r < 85) return (size_t) rng.range(2, 16);
        return (size_t) rng.range(17, 64);
    }
    void bucket(size_t n) {
        ++C.lengths[n == 0 ? "0" : n == 1 ? "1" : n <= 16 ? "2-16" : "17-64"];
        if (n == 0) ++C.zeroLength;
    }

    void create(int i) {
        Slot &x = s[i];
        size_t n = pickLen();
        unsigned how = (unsigned) rng.below(100);
        x.m.clear();
        x.known.clear();
        x.movedFrom = false;
        x.hidden = 0;
        if (how < 35) {
            // pointer + length, copied
            note("construct-ptr-copy");
            log("new#" + std::to_string(i) + "(ptr," + std::to_string(n) + ")");
            std::vector<T> src;
            src.reserve(n);
            for (size_t k = 0; k < n; ++k) { int64_t v = nextVal++; src.push_back(E::make(v)); x.m.push_back(normv<T>(v)); }
            x.known.assign(n, 1);
            x.a.reset(new Arr(src.data(), n));
            if (n && x.a->array() == src.data()) fail("shared-storage", op, "Array(ptr, n) with copy=true adopted the caller's storage");
            nontrivial = nontrivial || (kClass && n > 0);
        } else if (how < 42 && !kString) {
            // pointer + length, adopted (copy=false): storage must come from malloc and hold constructed elements
            note("construct-ptr-adopt");
            log("new#" + std::to_string(i) + "(adopt," + std::to_string(n) + ")");
            T *raw = static_cast<T *>(malloc(n * sizeof(T)));
            for (size_t k = 0; k < n; ++k) { int64_t v = nextVal++; new (&raw[k]) T(E::make(v)); x.m.push_back(normv<T>(v)); }
            x.known.assign(n, 1);
            x.a.reset(new Arr(raw, n, false));
            // (whether the block itself is adopted is not judged: the statement speaks of the values; a block that is neither
            // adopted nor released shows up in the lifetime registry and under LeakSanitizer)
        } else if (how < 62) {
            size_t k = n > 4 ? n % 5 : n;
            note("construct-ilist");
            log("new#" + std::to_string(i) + "{il" + std::to_string(k) + "}");
            int64_t v = nextVal;
            nextVal += 4;
            if (k >= 2 && rng.chance(350)) {
                // a named list handed to two arrays: the list is const, building the first array must not consume it
                std::initializer_list<T> il = {E::make(v), E::make(v + 1), E::make(v + 2)};
                k = 3;
                { Arr first(il); if (first.size() != 3) fail("model-mismatch", op, "size of an array built from a 3-element list"); }
                size_t q = 0;
                for (const T &e : il) { if (E::val(e) != normv<T>(v + (int64_t) q)) { fail("initializer-list-consumed", op, "building an Array from a std::initializer_list changed the list's own elements"); break; } ++q; }
                x.a.reset(new Arr(il));
            } else
            switch (k) {
                case 0: x.a.reset(new Arr(std::initializer_list<T>{})); break;
                case 1: x.a.reset(new Arr({E::make(v)})); break;
                case 2: x.a.reset(new Arr({E::make(v), E::make(v + 1)})); break;
                case 3: x.a.reset(new Arr({E::make(v), E::make(v + 1), E::make(v + 2)})); break;
                default: x.a.reset(new Arr({E::make(v), E::make(v + 1), E::make(v + 2), E::make(v + 3)})); break;
            }
            for (size_t q = 0; q < k; ++q) x.m.push_back(normv<T>(v + (int64_t) q));
            x.known.assign(k, 1);
            n = k;
        } else if (how < 78) {
            note("construct-size");
            log("new#" + std::to_string(i) + "(n" + std::to_string(n) + ")");
            x.a.reset(new Arr(n));
            x.m.assign(n, defaultValue());
            x.known.assign(n, kClass ? 1 : 0);
        } else if (how < 95) {
            int64_t v = nextVal++;
            note("construct-size-value");
            log("new#" + std::to_string(i) + "(n" + std::to_string(n) + ",v" + std::to_string(v) + ")");
            T val = E::make(v);
            x.a.reset(new Arr(n, val));
            x.m.assign(n, normv<T>(v));
            x.known.assign(n, 1);
        } else {
            note("construct-default");
            log("new#" + std::to_string(i) + "()");
            x.a.reset(new Arr());
            n = 0;
        }
        bucket(n);
    }

    void write(int i) {
        Slot &x = s[i];
        size_t n = x.m.size(), k = rng.below(n);
        int64_t v = nextVal++;
        unsigned how = (unsigned) rng.below(4);
        note("element-write");
        log("set#" + std::to_string(i) + "[" + std::to_string(k) + "]=" + std::to_string(v));
        if (how == 0) { k = 0; x.a->front() = E::make(v); }
        else if (how == 1) { k = n - 1; x.a->back() = E::make(v); }
        else if (how == 2) *(x.a->begin() + (std::ptrdiff_t) k) = E::make(v);
        else (*x.a)[k] = E::make(v);
        x.m[k] = normv<T>(v);
        x.known[k] = 1;
    }
    void resize(int i, bool withValue) {
        Slot &x = s[i];
        size_t old = x.m.size();
        size_t n = rng.chance(150) ? 0 : rng.chance(150) ? old : pickLen();
        note(withValue ? (n < old ? "resize-value-shrink" : "resize-value-grow") : (n < old ? "resize-shrink" : "resize-grow"));
        if (withValue) {
            int64_t v = nextVal++;
            log("rsv#" + std::to_string(i) + "(" + std::to_string(n) + ",v" + std::to_string(v) + ")");
            T val = E::make(v);
            x.a->resize(n, val);
            x.m.resize(n, normv<T>(v));
            x.known.resize(n, 1);
        } else {
            log("rs#" + std::to_string(i) + "(" + std::to_string(n) + ")");
            x.a->resize(n);
            x.m.resize(n, defaultValue());
            x.known.resize(n, kClass ? 1 : 0);
        }
        if (n != old && old > 0) nontrivial = true;
        if (n == 0) ++C.zeroLength;
    }
    void copyConstruct(int from, int to) {
        note("copy-construct");
        log("cc#" + std::to_string(to) + "<-#" + std::to_string(from));
        s[to].a.reset(new Arr(*s[from].a));
        s[to].m = s[from].m;
        s[to].known = s[from].known;
        s[to].movedFrom = false;
        s[to].hidden = 0;
        nontrivial = nontrivial || s[from].m.size() > 0;
    }
    void copyAssign(int from, int to) {
        Slot &d = s[to];
        bool self = from == to;
        note(self ? "copy-assign-self" : (d.movedFrom ? "copy-assign-onto-moved-from" : "copy-assign"));
        log("ca#" + std::to_string(to) + "=#" + std::to_string(from));
        *d.a = *s[from].a;
        if (!self) {
            d.m = s[from].m;
            d.known = s[from].known;
            d.movedFrom = false;
            d.hidden = 0;
        }
        nontrivial = nontrivial || d.m.size() > 0;
    }
    void moveConstruct(int from, int to) {
        note("move-construct");
        log("mc#" + std::to_string(to) + "<-#" + std::to_string(from));
        const T *before = s[from].a->array();
        size_t n = s[from].m.size();
        s[to].a.reset(new Arr(std::move(*s[from].a)));
        (void) before; (void) n;   // "moves transfer the contents": the contents are compared, the address of the storage is not judged
        s[to].m = std::move(s[from].m);
        s[to].known = std::move(s[from].known);
        s[to].movedFrom = false;
        s[to].hidden = 0;
        s[from].m.clear();
        s[from].known.clear();
        s[from].movedFrom = true;
        s[from].hidden = 0;
    }
    void moveAssign(int from, int to) {
        Slot &d = s[to], &f = s[from];
        note(d.movedFrom ? "move-assign-onto-moved-from" : "move-assign");
        log("ma#" + std::to_string(to) + "=mv#" + std::to_string(from));
        size_t oldLive = d.movedFrom ? d.hidden : d.m.size();
        *d.a = std::move(*f.a);
        d.m = std::move(f.m);
        d.known = std::move(f.known);
        d.movedFrom = false;
        d.hidden = 0;
        f.m.clear();
        f.known.clear();
        f.movedFrom = true;
        f.hidden = oldLive;
    }
    void swap(int i, int j) {
        note("swap");
        log("swap#" + std::to_string(i) + ",#" + std::to_string(j));
        s[i].a->swap(*s[j].a);
        std::swap(s[i].m, s[j].m);
        std::swap(s[i].known, s[j].known);
    }
    void destroy(int i) {
        note(s[i].movedFrom ? "destroy-moved-from" : "destroy");
        log("del#" + std::to_string(i));
        s[i].a.reset();
        s[i].m.clear();
        s[i].known.clear();
        s[i].movedFrom = false;
        s[i].hidden = 0;
    }

    void run(int steps) {
        uint64_t v0 = rt::st().violations.load();
        create(0);
        reconcile();
        for (int st = 0; st < steps && !gCaseFailed; ++st) {
            rt::crumb("array<%s> step %d: %s", E::name, st, gHist.size() > 180 ? gHist.c_str() + gHist.size() - 180 : gHist.c_str());
            unsigned r = (unsigned) rng.below(1000), acc = 0;
            auto in = [&](unsigned w) { acc += w; return r < acc; };
            int i, j;
            if (in(170)) { int to = pickFree(); if (to < 0) { to = pickAny(); destroy(to); } create(to); }
            else if (in(170)) { if ((i = pickValid(true)) >= 0) write(i); }
            else if (in(kString ? 0 : 110)) { if ((i = pickValid()) >= 0) resize(i, false); }
            else if (in(kString ? 0 : 100)) { if ((i = pickValid()) >= 0) resize(i, true); }
            else if (in(90)) { i = pickValid(); j = pickFree(); if (i >= 0 && j >= 0) copyConstruct(i, j); }
            else if (in(110)) { i = pickValid(); j = pickAny(); if (i >= 0 && j >= 0) copyAssign(i, j); }
            else if (in(60)) { i = pickValid(); j = pickFree(); if (i >= 0 && j >= 0) moveConstruct(i, j); }
            else if (in(70)) { i = pickValid(); j = pickAny(); if (i >= 0 && j >= 0 && i != j) moveAssign(i, j); }
            else if (in(60)) { i = pickValid(); j = pickValid(); if (i >= 0 && j >= 0) swap(i, j); }
            else { if ((i = pickAny()) >= 0) destroy(i); }
            if (rt::st().violations.load() != v0) gCaseFailed = true;
            if (gCaseFailed) break;
            if (pickValid() < 0) { int to = pickFree(); if (to < 0) { destroy(0); to = 0; } create(to); }
            reconcile();
            if (rt::st().violations.load() != v0) gCaseFailed = true;
        }
        if (gCaseFailed) {
            for (int k = 0; k < 4; ++k) (void) s[k].a.release();
            return;
        }
        for (int k = 0; k < 4; ++k) if (s[k].a) { destroy(k); reconcile(); }
        if constexpr (kTracked) {
            if (LifeRegistry::get().live != 0 && !gCaseFailed)
                fail("live-value-abandoned", "end-of-history", std::to_string(LifeRegistry::get().live) + " live value(s) survive the destruction of every array");
        }
    }
};

template<class T>
void runCase(uint64_t seed, int steps) {
    Runner<T> r(seed);
    r.run(steps);
    ++C.histories;
    if (r.nontrivial) {
        ++C.nontrivialCases;
        C.fps.push_back(r.hist.get());
        if (C.samples.size() < 4 && gHist.size() < 600)
            C.samples.push_back(rt::Json().kv("type", Elem<T>::name).kv("history", gHist).str());
    }
}

} // namespace


// ------------------------------------------------------------------ element types that refer back to arrays
// (a) an Array assigned from an Array that one of its own elements owns (a tree node whose children are an Array of nodes:
//     `root.kids = root.kids[1].kids`): the source must be read before the target's elements die;
// (b) elements with an initializer_list constructor that could swallow a copy (std::vector<std::any>): every copying path
//     copies the element, it does not wrap it.
struct TreeNode {
    int v = 0;
    tulz::Array<TreeNode> kids;
    TreeNode() = default;
    explicit TreeNode(int x) : v(x) {}
};
void runNestedCase(rt::Rng rng) {
    char d[160];
    if (rng.chance(500)) {
        int n = (int) rng.range(2, 5), pick = (int) rng.below((uint64_t) n), m = (int) rng.range(1, 4);
        snprintf(d, sizeof d, "tree: root.kids (%d nodes) = root.kids[%d].kids (%d nodes)", n, pick, m);
        gHist = d;
        rt::crumb("%s", d);
        TreeNode root(1);
        root.kids = tulz::Array<TreeNode>((size_t) n);
        for (int i = 0; i < n; ++i) {
            root.kids[(size_t) i].v = 10 * (i + 1);
            root.kids[(size_t) i].kids = tulz::Array<TreeNode>((size_t) m);
            for (int k = 0; k < m; ++k) root.kids[(size_t) i].kids[(size_t) k].v = 100 * (i + 1) + k;
        }
        root.kids = root.kids[(size_t) pick].kids;
        if (root.kids.size() != (size_t) m) fail("model-mismatch", "assign-from-own-element", std::string(d) + ": " + std::to_string(root.kids.size()) + " nodes afterwards");
        else for (int k = 0; k < m; ++k)
            if (root.kids[(size_t) k].v != 100 * (pick + 1) + k || root.kids[(size_t) k].kids.size() != 0) { fail("model-mismatch", "assign-from-own-element", std::string(d) + ": node " + std::to_string(k) + " holds " + std::to_string(root.kids[(size_t) k].v) + ", expected " + std::to_string(100 * (pick + 1) + k)); break; }
    } else {
        using Row = std::vector<std::any>;
        size_t w = (size_t) rng.range(2, 5), n = (size_t) rng.range(1, 6);
        snprintf(d, sizeof d, "Array<std::vector<std::any>>: %zu rows of %zu values through every copying path", n, w);
        gHist = d;
        rt::crumb("%s", d);
        Row row;
        for (size_t i = 0; i < w; ++i) row.emplace_back((int) i + 7);
        auto rowsOk = [&](const tulz::Array<Row> &a, size_t want, const char *what) {
            if (gCaseFailed) return;
            if (a.size() != want) return fail("model-mismatch", what, std::string(d) + ": size " + std::to_string(a.size()) + " after " + what);
            for (size_t i = 0; i < want; ++i)
                if (a[i].size() != w || a[i][0].type() != typeid(int) || std::any_cast<int>(a[i][0]) != 7) return fail("model-mismatch", what, std::string(d) + ": row " + std::to_string(i) + " has " + std::to_string(a[i].size()) + " value(s) after " + what + " (an element was wrapped instead of copied)");
        };
        tulz::Array<Row> filled(n, row);
        rowsOk(filled, n, "fill-construct");
        tulz::Array<Row> copy(filled);
        rowsOk(copy, n, "copy-construct");
        tulz::Array<Row> assigned;
        assigned = filled;
        rowsOk(assigned, n, "copy-assign");
        std::vector<Row> src(n, row);
        tulz::Array<Row> fromPtr(src.data(), n);
        rowsOk(fromPtr, n, "pointer+length");
        tulz::Array<Row> ilist{row, row};
        rowsOk(ilist, 2, "initializer-list");
        filled.resize(n + 3, row);
        rowsOk(filled, n + 3, "resize-value-grow");
    }
    ++C.nestedElementRuns;
    ++C.histories;
    if (!gCaseFailed) { ++C.nontrivialCases; rt::Hash h; for (char c : gHist) h.add((uint64_t) c); C.fps.push_back(h.get()); }
}

// ------------------------------------------------------------------ lengths beyond 2^31 and 2^32 elements
// "for every length": an arithmetic Array of 2^31+k or 2^32+k elements (about 2-4 GiB) goes through pointer+length
// construction, copy construction, copy assignment, move, growing and shrinking resize and the fill constructor; marker
// elements on both sides of 2^31 and 2^32 and at the very end must arrive, and copies must be independent.
template<class T>
void runHugeCase(uint64_t c, size_t n, const char *tname) {
    using Arr = tulz::Array<T>;
    char d[200];
    snprintf(d, sizeof d, "Array<%s> of %zu elements (%.1f GiB)", tname, n, (double) (n * sizeof(T)) / (1ULL << 30));
    gHist = d;
    rt::crumb("%s", d);
    if (rt::memAvailableBytes() < 3 * n * sizeof(T) + (2ULL << 30)) { ++C.hugeSkipped; return; }   // up to three such arrays are alive at once
    T *src = (T *) mmap(nullptr, n * sizeof(T), PROT_READ | PROT_WRITE, MAP_PRIVATE | MAP_ANONYMOUS | MAP_NORESERVE, -1, 0);
    if (src == MAP_FAILED) { ++C.hugeSkipped; return; }   // not enough address space or memory here: nothing to judge
    std::vector<size_t> marks;
    for (size_t base : {(size_t) 0, (size_t) 1 << 16, (size_t) 1 << 31, (size_t) 1 << 32})
        for (long off : {-2L, -1L, 0L, 1L, 4219L})
            if ((base || off >= 0) && base + (size_t) off < n) marks.push_back(base + (size_t) off);
    marks.push_back(n - 1);
    marks.push_back(n / 2 + 12345);
    auto val = [](size_t p) { return (T) ((rt::mix(p, 0x5eed) & 0x7f) | 1); };
    for (size_t p : marks) src[p] = val(p);
    auto check = [&](const Arr &a, size_t size, const char *what) {
        if (gCaseFailed) return;
        if (a.size() != size) return fail("model-mismatch", what, std::string(d) + ": size() = " + std::to_string(a.size()) + " after " + what + ", expected " + std::to_string(size));
        for (size_t p : marks) {
            if (p >= size) continue;
            if (a[p] != val(p)) return fail("model-mismatch", what, std::string(d) + ": element [" + std::to_string(p) + "] = " + std::to_string((long) a[p]) + " after " + what + ", expected " + std::to_string((long) val(p)));
            if (p + 7 < size && std::find(marks.begin(), marks.end(), p + 7) == marks.end() && a[p + 7] != 0) return fail("model-mismatch", what, std::string(d) + ": element [" + std::to_string(p + 7) + "] is not 0 after " + what);
        }
        ++C.compared;
    };
    {
        Arr a(src, n);
        check(a, n, "pointer+length");
        munmap(src, n * sizeof(T));
        {
            Arr b(a);
            check(b, n, "copy-construct");
            if (!gCaseFailed) { b[n - 1] = 0; b[0] = 0; check(a, n, "write-to-copy"); }
        }
        if (!gCaseFailed) {
            Arr e(3);
            e = a;
            check(e, n, "copy-assign");
            if (!gCaseFailed) {
                Arr m(std::move(e));
                check(m, n, "move-construct");
                if (!gCaseFailed && e.size() != 0) fail("model-mismatch", "move-construct", std::string(d) + ": the moved-from array still reports " + std::to_string(e.size()) + " elements");
            }
        }
        if (!gCaseFailed) { a.resize(n + 7); check(a, n + 7, "resize-grow"); }
        size_t cut = n > ((size_t) 1 << 32) ? ((size_t) 1 << 32) + 1 : ((size_t) 1 << 31) + 1;
        if (!gCaseFailed) { a.resize(cut); check(a, cut, "resize-shrink"); }
    }
    if (!gCaseFailed && sizeof(T) == 1) {
        T v = (T) 0x6b;
        Arr f(n, v);
        if (f.size() != n) fail("model-mismatch", "fill-construct", std::string(d) + ": size() wrong after the fill constructor");
        for (size_t p : marks) if (!gCaseFailed && f[p] != v) fail("model-mismatch", "fill-construct", std::string(d) + ": element [" + std::to_string(p) + "] is not the fill value");
    }
    ++C.hugeArrays;
    ++C.histories;
    ++C.lengths[">2^31"];
    if (!gCaseFailed) { ++C.nontrivialCases; rt::Hash h; h.add(n); h.add(sizeof(T)); C.fps.push_back(h.get()); }
}

int main(int argc, char **argv) {
    rt::init(argc, argv);
    rt::cpuBudgetPerCase(240);   // single-threaded, deterministic: a case that burns 240 s of CPU time does not terminate
    LifeRegistry::get().prop = "C14";
    LifeRegistry::get().context = histTail;
    std::string types = rt::optStr("types", "int,double,byte,pod24,tracked,tracked,tracked-throwing-move,string");
    std::vector<std::string> tl;
    for (size_t p = 0; p <= types.size();) {
        size_t q = types.find(',', p);
        if (q == std::string::npos) q = types.size();
        tl.push_back(types.substr(p, q - p));
        p = q + 1;
    }
    int maxSteps = (int) rt::optInt("steps", 80);
    for (uint64_t c = rt::st().from; c < rt::st().from + rt::st().count; ++c) {
        rt::setCase(c);
        rt::Rng rng(rt::mix(rt::st().seed, c));
        gHist.clear();
        gCaseFailed = false;
        LifeRegistry::get().reset();
        if (rt::optStr("mode", "") == "huge") {
            size_t k = 4219 + (size_t) rng.below(100000);
            if (c % 3 == 0) runHugeCase<unsigned char>(c, ((size_t) 1 << 32) + k, "unsigned char");
            else if (c % 3 == 1) runHugeCase<uint16_t>(c, ((size_t) 1 << 31) + k, "uint16_t");
            else runHugeCase<unsigned char>(c, ((size_t) 1 << 31) + k, "unsigned char");
            continue;
        }
        if (rng.chance((unsigned) rt::optInt("nested", 3))) { runNestedCase(rng); continue; }
        const std::string &t = tl[rng.below(tl.size())];
        int steps = (int) (rng.chance(300) ? rng.range(1, 10) : rng.range(8, maxSteps));
        uint64_t s = rng.next();
        rt::crumb("array<%s> start", t.c_str());
        if (t == "int") runCase<int>(s, steps);
        else if (t == "double") runCase<double>(s, steps);
        else if (t == "byte") runCase<unsigned char>(s, steps);
        else if (t == "pod24") runCase<rt::Pod24>(s, steps);
        else if (t == "tracked") runCase<Tracked>(s, steps);
        else if (t == "tracked-throwing-move") runCase<rt::TrackedThrowingMove>(s, steps);
        else if (t == "string") runCase<std::string>(s, steps);
    }
    rt::dumpFingerprints(C.fps);
    auto &R = LifeRegistry::get();
    rt::finish(rt::Json().kv("engine", "h_array").kv("histories", C.histories).kv("ops", C.ops)
                   .kv("nontrivialCases", C.nontrivialCases).kv("stateComparisons", C.compared).kv("zeroLength", C.zeroLength).kv("nestedElementRuns", C.nestedElementRuns).kv("arraysOver2G", C.hugeArrays).kv("hugeSkipped", C.hugeSkipped)
                   .kv("trackedCtors", R.ctor).kv("trackedDtors", R.dtor).kv("trackedMoves", R.moves)
                   .raw("opCount", rt::jsonCounts(C.opCount)).raw("lengths", rt::jsonCounts(C.lengths))
                   .raw("samples", rt::jsonArray(C.samples, false)));
    return 0;
}
