// Engine for C06 (SubjectRouter reaches exactly the matching observers) and
// C13 (shrink is invisible to delivery; exists/depth consistent).
//
// A routing-tree model (set of stored concrete keys, subscriptions per key,
// "holds a subject" flag per key) runs in lock-step with the real router.
// Matching is recomputed independently (string equality / std::regex_match per
// level). The stored-key set is *measured* after every operation with exists()
// on every concrete key of the finite universe, so the C13 rules do not have
// to mirror which dead siblings the implementation chooses to drop.
//
// Signature discipline: the argument signature is a function of the key
// depth, so every key a pattern can reach has the signature the notify uses
// (anything else is undefined by the library's own documentation).
#include "../rt/rt.h"

#include <tulz/observer/routing/ConcurrentSubjectRouter.h>
#include <tulz/observer/routing/RoutingKeyBuilder.h>
#include <tulz/observer/routing/SubjectRouter.h>

#include <memory>
#include <set>

using namespace tulz;

namespace {

struct Payload {
    std::string data;
    int64_t tag = 0;
    Payload() = default;
    explicit Payload(int64_t v) : data("payload-with-a-long-heap-string-" + std::to_string(v)), tag(v) {}
    bool intact() const { return data == "payload-with-a-long-heap-string-" + std::to_string(tag); }
};

enum Sig { SNone, SInt, SCStr, SPayload, SIntCStr, SIntRef, kSigs };
const char *sigName[] = {"<>", "<int>", "<const std::string&>", "<Payload by value>", "<int, const std::string&>", "<int&>"};

using Key = std::vector<std::string>;          // concrete key: level names below the root
// colliding names: prefixes of each other, regex metacharacters as plain text, the empty name, an embedded NUL
const std::vector<std::string> kNames = {"a", std::string("a\0b", 3), "a.b", "a+", "b", ""};
constexpr int kMaxDepth = 3;

struct PLevel {                                // one pattern level
    bool isRegex = false;
    std::string text;                          // name or regex source
    int rx = -1;
};
const std::vector<std::string> kRegexSrc = {".*", "a.*", "a|b", "[ab]+", "a\\.b", "a.b", "x", "", "a+", ".+", "(a|ab)\\+?"};
std::vector<std::regex> gRegex;

struct Cover {
    uint64_t histories = 0, ops = 0, notifies = 0, wildcardNotifies = 0, multiReceiverNotifies = 0, calls = 0, shrinks = 0, removedKeys = 0;
    uint64_t measures = 0, existsProbes = 0, probesAfterShrink = 0, fullShrinks = 0, nontrivialCases = 0, byValueMulti = 0, lazyRemovals = 0;
    uint64_t specialRuns = 0, longLifeCycles = 0, deepKeyRuns = 0, throwingObserverRuns = 0, nestedNotifyRuns = 0;
    std::map<std::string, uint64_t> opCount, sigCount, routerCount;
    std::vector<uint64_t> fps;
    std::vector<std::string> samples;
} C;

std::string gHist;
const char *gProp = "C06";
bool gCaseFailed = false;

std::string histTail() { return "history: " + (gHist.size() > 1600 ? "..." + gHist.substr(gHist.size() - 1600) : gHist); }
void fail(const char *prop, const char *rule, const char *site, const std::string &d) {
    gCaseFailed = true;
    rt::violation(prop, rule, site, d + " | " + histTail());
}

std::string keyStr(const Key &k) {
    std::string s;
    for (auto &l : k) s += "/" + l;
    return s.empty() ? "/" : s;
}
std::string patStr(const std::vector<PLevel> &p) {
    std::string s;
    for (auto &l : p) s += l.isRegex ? "/{" + l.text + "}" : "/" + l.text;
    return s;
}
bool levelMatches(const PLevel &l, const std::string &name) {
    if (!l.isRegex) return l.text == name;
    return std::regex_match(name.begin(), name.end(), gRegex[l.rx]);
}
bool matches(const std::vector<PLevel> &p, const Key &k) {
    if (p.size() != k.size()) return false;
    for (size_t i = 0; i < p.size(); ++i) if (!levelMatches(p[i], k[i])) return false;
    return true;
}
bool prefixMatches(const std::vector<PLevel> &p, const Key &k, size_t n) {   // first n levels
    for (size_t i = 0; i < n; ++i) if (!levelMatches(p[i], k[i])) return false;
    return true;
}
RoutingKey buildKey(const Key &k) {
    RoutingKeyBuilder b;
    for (auto &l : k) b.level(l);
    return b.build();
}
RoutingKey buildPattern(const std::vector<PLevel> &p) {
    RoutingKeyBuilder b;
    for (auto &l : p) {
        if (!l.isRegex) b.level(l.text);
        else if (l.text == ".*") b.all();
        else b.level(gRegex[l.rx]);
    }
    return b.build();
}

std::vector<Key> gUniverse;   // every concrete key of depth 1..kMaxDepth

template<class Router>
struct Runner {
    struct SubRec {
        int id;
        Key key;
        bool present = true, valid = true, muted = false;
        std::unique_ptr<USubscription> handle;
        std::function<void()> invalidate;
        int calls = 0;
    };
    Router router;
    rt::Rng rng;
    Sig sigOfDepth[kMaxDepth + 2];   // index 0: subscriptions at the root key itself; kMaxDepth+1: patterns deeper than any key
    std::vector<std::unique_ptr<SubRec>> subs;
    std::set<Key> stored;               // model of the stored keys (prefix-closed)
    std::set<Key> hasSubject;
    rt::Hash hist;
    const char *site = "";
    bool nontrivial = false;
    bool afterShrinkProbe = false;

    // current notify
    bool inNotify = false;
    std::map<int, int> got;             // id -> invocations in the current notify
    int64_t curV = 0;
    int refVar = 0;
    std::string curStr;

    explicit Runner(uint64_t seed) : rng(seed) {
        for (int d = 0; d <= kMaxDepth + 1; ++d) sigOfDepth[d] = (Sig) rng.below(kSigs);
    }

    void log(const std::string &t) {
        gHist += t;
        gHist += ' ';
        for (char c : t) hist.add((uint64_t) c);
    }
    void note(const char *o) { site = o; ++C.opCount[o]; ++C.ops; }

    // ------------------------------------------------------------------ callbacks
    void onCall(int id, bool argsOk, const std::string &what) {
        ++C.calls;
        if (!inNotify) return fail(gProp, "unexpected-call", site, "observer " + std::to_string(id) + " invoked outside notify");
        ++got[id];
        if (!argsOk && !gCaseFailed)
            fail("C06", "wrong-argument", site, "observer " + std::to_string(id) + " at " + keyStr(subs[id]->key) + " received " + what + " instead of the values passed to notify (receiver #" + std::to_string(got.size()) + " of this notify)");
    }

    template<class... Args, class F> void subscribeAs(SubRec &r, F fn) {
        auto *obs = new EternalObserver<Args...>(typename Observer<Args...>::Func(fn));
        r.invalidate = [obs] { obs->invalidate(); };
        RoutingKey rk = buildKey(r.key);
        r.handle.reset(new USubscription(router.template subscribe<Args...>(rk, static_cast<Observer<Args...> *>(obs))));
    }

    void subscribe(const Key &key) {
        int id = (int) subs.size();
        subs.emplace_back(new SubRec());
        SubRec &r = *subs[id];
        r.id = id;
        r.key = key;
        Sig sg = sigOfDepth[key.size()];
        note("subscribe");
        log("sub" + std::to_string(id) + "@" + keyStr(key));
        switch (sg) {
            case SNone: subscribeAs<>(r, [this, id]() { onCall(id, true, ""); }); break;
            case SInt: subscribeAs<int>(r, [this, id](int x) { onCall(id, x == (int) curV, "int " + std::to_string(x)); }); break;
            case SCStr: subscribeAs<const std::string &>(r, [this, id](const std::string &s) { onCall(id, s == curStr, "string '" + s.substr(0, 40) + "'"); }); break;
            case SPayload: subscribeAs<Payload>(r, [this, id](Payload p) { onCall(id, p.intact() && p.tag == curV, p.intact() ? "payload tag " + std::to_string(p.tag) : "a moved-from / damaged payload"); }); break;
            case SIntCStr: subscribeAs<int, const std::string &>(r, [this, id](int x, const std::string &s) { onCall(id, x == (int) curV && s == curStr, "int " + std::to_string(x) + ", string '" + s.substr(0, 40) + "'"); }); break;
            default: subscribeAs<int &>(r, [this, id](int &x) { bool ok = &x == &refVar; if (ok) ++x; onCall(id, ok, "a reference to some other int"); }); break;
        }
        for (size_t n = 1; n <= key.size(); ++n) stored.insert(Key(key.begin(), key.begin() + (long) n));
        hasSubject.insert(key);
    }

    size_t realNotify(const std::vector<PLevel> &p) {
        RoutingKey rk = buildPattern(p);
        Sig sg = sigOfDepth[p.size()];
        switch (sg) {
            case SNone: return router.notify(rk);
            case SInt: return rng.chance(500) ? router.notify(rk, (int) curV) : router.template notify<int>(rk, (int) curV);
            case SCStr: return router.template notify<const std::string &>(rk, curStr);
            case SPayload: {
                if (rng.chance(500)) return router.notify(rk, Payload(curV));
                Payload p0(curV);
                return router.template notify<Payload>(rk, std::move(p0));
            }
            case SIntCStr: return router.template notify<int, const std::string &>(rk, (int) curV, curStr);
            default: return router.notify(rk, refVar);
        }
    }

    void notify(const std::vector<PLevel> &p, const char *prop) {
        note(afterShrinkProbe ? "probe-notify" : "notify");
        log("N" + patStr(p));
        ++C.notifies;
        bool wild = false;
        for (auto &l : p) wild = wild || l.isRegex;
        if (wild) ++C.wildcardNotifies;
        // expectation
        std::set<int> expect;
        std::set<Key> matchedKeys;
        for (auto &k : stored) if (matches(p, k)) matchedKeys.insert(k);
        if (p.empty()) matchedKeys.insert(Key{});   // the root is stored by construction and is not part of the measured universe
        size_t expectCount = 0;
        for (auto &k : matchedKeys) if (hasSubject.count(k)) ++expectCount;
        for (auto &s : subs) if (s->present && s->valid && !s->muted && matchedKeys.count(s->key)) expect.insert(s->id);
        curV = 1000 + (int64_t) C.notifies % 100000;
        curStr = "routed-string-long-enough-for-the-heap-" + std::to_string(curV);
        refVar = (int) curV;
        got.clear();
        inNotify = true;
        size_t ret = realNotify(p);
        inNotify = false;
        if (gCaseFailed) return;
        if (expect.size() >= 2) {
            ++C.multiReceiverNotifies;
            nontrivial = true;
            Sig sg = sigOfDepth[p.size()];
            if (sg == SPayload || sg == SInt) ++C.byValueMulti;
        }
        for (auto &[id, n] : got) {
            if (!expect.count(id)) {
                SubRec &s = *subs[id];
                const char *why = !s.present ? "although it was unsubscribed / removed" : !s.valid ? "although it was invalidated" : s.muted ? "although it is muted"
                                  : "although its key does not match the pattern level by level";
                return fail(prop, "unexpected-call", site, "notify " + patStr(p) + " invoked observer " + std::to_string(id) + " at " + keyStr(s.key) + " " + why);
            }
            if (n != 1) return fail(prop, "unexpected-call", site, "notify " + patStr(p) + " invoked observer " + std::to_string(id) + " " + std::to_string(n) + " times");
        }
        for (int id : expect)
            if (!got.count(id))
                return fail(prop, afterShrinkProbe ? "delivery-changed-by-shrink" : "missing-call", site, "notify " + patStr(p) + " did not reach observer " + std::to_string(id) + " at " + keyStr(subs[id]->key) + " whose key matches level by level");
        if (ret != expectCount)
            return fail(prop, "wrong-return", site, "notify " + patStr(p) + " returned " + std::to_string(ret) + ", but " + std::to_string(expectCount) + " matched key(s) hold a subject");
        if (sigOfDepth[p.size()] == SIntRef && refVar != (int) curV + (int) expect.size())
            return fail(prop, "wrong-argument", site, "int& argument was incremented " + std::to_string(refVar - (int) curV) + " times by " + std::to_string(expect.size()) + " receivers");
        // lazy removal: invalid observers of every notified subject are dropped by the Subject
        for (auto &s : subs)
            if (s->present && !s->valid && matchedKeys.count(s->key)) { s->present = false; ++C.lazyRemovals; }
    }

    std::vector<PLevel> randomPattern(int depth) {
        std::vector<PLevel> p;
        for (int i = 0; i < depth; ++i) {
            PLevel l;
            if (rng.chance(450)) { l.text = kNames[rng.below(kNames.size())]; }
            else { l.isRegex = true; l.rx = rng.chance(300) ? 0 : (int) rng.below(kRegexSrc.size()); l.text = kRegexSrc[l.rx]; }
            p.push_back(l);
        }
        return p;
    }
    std::vector<PLevel> concretePattern(const Key &k) {
        std::vector<PLevel> p;
        for (auto &n : k) { PLevel l; l.text = n; p.push_back(l); }
        return p;
    }
    std::vector<PLevel> allPattern(int depth) {
        std::vector<PLevel> p(depth);
        for (auto &l : p) { l.isRegex = true; l.rx = 0; l.text = ".*"; }
        return p;
    }
    Key randomKey() {
        // biased towards few distinct names so that keys collide and share prefixes
        int depth = rng.chance(40) ? 0 : (int) rng.range(1, kMaxDepth);   // now and then the root key itself
        Key k;
        for (int i = 0; i < depth; ++i) k.push_back(kNames[rng.chance(600) ? rng.below(3) : rng.below(kNames.size())]);
        return k;
    }

    bool liveAtOrBelow(const Key &k) {   // a subscription the Subject still holds (valid or not yet lazily removed)
        for (auto &s : subs)
            if (s->present && s->key.size() >= k.size() && std::equal(k.begin(), k.end(), s->key.begin())) return true;
        return false;
    }

    // ------------------------------------------------------------------ C13: measure the stored keys through exists()
    std::set<Key> measure() {
        std::set<Key> m;
        for (auto &k : gUniverse) if (router.exists(buildKey(k))) m.insert(k);
        ++C.measures;
        return m;
    }

    void checkStructure(const char *opName, const std::vector<PLevel> *shrunk) {
        std::set<Key> m = measure();
        std::string w = std::string("after ") + opName + ": ";
        for (auto &k : m)
            if (k.size() > 1 && !m.count(Key(k.begin(), k.end() - 1)))
                return fail("C13", "not-prefix-closed", opName, w + "key " + keyStr(k) + " exists but its parent does not");
        if (!shrunk) {
            if (m != stored) {
                for (auto &k : m) if (!stored.count(k)) return fail("C13", "stored-keys-changed", opName, w + "key " + keyStr(k) + " exists although nothing was subscribed at or below it");
                // A DEAD key that goes away outside shrink() (an implementation may prune when the last subscription leaves) is
                // not against the statement; a key at or above a held subscription must stay
                for (auto &k : stored) if (!m.count(k) && liveAtOrBelow(k)) return fail("C13", "live-key-removed", opName, w + "key " + keyStr(k) + " disappeared although a subscription at or below it is still held");
                for (auto it = hasSubject.begin(); it != hasSubject.end();) it = (it->empty() || m.count(*it)) ? std::next(it) : hasSubject.erase(it);
                stored = m;
            }
        } else {
            for (auto &k : m) if (!stored.count(k)) return fail("C13", "stored-keys-changed", opName, w + "key " + keyStr(k) + " appeared during shrink");
            for (auto &k : stored) {
                if (m.count(k)) continue;
                ++C.removedKeys;
                if (liveAtOrBelow(k)) return fail("C13", "live-key-removed", opName, w + "shrink " + patStr(*shrunk) + " removed key " + keyStr(k) + " although a subscription at or below it is still held");
                size_t pd = k.size() - 1;   // depth of the parent, which must have been visited
                if (pd > shrunk->size() || !prefixMatches(*shrunk, k, pd))
                    return fail("C13", "removed-off-pattern", opName, w + "shrink " + patStr(*shrunk) + " removed key " + keyStr(k) + " whose parent does not lie along the pattern");
            }
            for (auto &s : subs) if (s->present)
                for (size_t n = 1; n <= s->key.size(); ++n)
                    if (!m.count(Key(s->key.begin(), s->key.begin() + (long) n)))
                        return fail("C13", "live-key-removed", opName, w + "prefix of live key " + keyStr(s->key) + " is gone");
            // full-depth wildcard shrink: no dead branch may survive
            bool allWild = true;
            for (auto &l : *shrunk) allWild = allWild && l.isRegex && l.text == ".*";
            size_t maxDepth = 0;
            for (auto &k : stored) maxDepth = std::max(maxDepth, k.size());
            if (allWild && shrunk->size() >= maxDepth) {
                ++C.fullShrinks;
                for (auto &k : m) if (!liveAtOrBelow(k)) return fail("C13", "dead-branch-survived", opName, w + "full-depth wildcard shrink left dead key " + keyStr(k));
            }
            for (auto it = hasSubject.begin(); it != hasSubject.end();) it = (it->empty() || m.count(*it)) ? std::next(it) : hasSubject.erase(it);   // the root is never removed
            stored = m;
        }
        // depth() is one more than the longest stored key
        size_t maxDepth = 0;
        for (auto &k : m) maxDepth = std::max(maxDepth, k.size());
        size_t d = router.depth();
        if (d != maxDepth + 1) return fail("C13", "wrong-depth", opName, w + "depth() = " + std::to_string(d) + ", longest stored key has " + std::to_string(maxDepth) + " level(s)");
        // exists(pattern) == some stored key of that depth matches level by level
        for (int i = 0; i < 6; ++i) {
            auto p = randomPattern((int) rng.range(1, kMaxDepth + 1));
            bool want = false;
            for (auto &k : m) if (matches(p, k)) { want = true; break; }
            ++C.existsProbes;
            if (router.exists(buildPattern(p)) != want)
                return fail("C13", "wrong-exists", opName, w + "exists(" + patStr(p) + ") = " + (want ? "false" : "true") + " but " + (want ? "a" : "no") + " stored key matches level by level");
        }
        // the empty pattern is the root, which always exists
        if (!router.exists(RoutingKeyBuilder{}.build())) return fail("C13", "wrong-exists", opName, w + "exists(root) is false");
    }

    void probeAfterShrink() {
        afterShrinkProbe = true;
        for (int d = 1; d <= kMaxDepth && !gCaseFailed; ++d) { notify(allPattern(d), "C13"); ++C.probesAfterShrink; }
        for (int i = 0; i < 3 && !gCaseFailed; ++i) { notify(randomPattern((int) rng.range(1, kMaxDepth)), "C13"); ++C.probesAfterShrink; }
        afterShrinkProbe = false;
    }

    void shrink() {
        std::vector<PLevel> p;
        unsigned r = (unsigned) rng.below(100);
        if (r < 35) p = allPattern((int) rng.range(1, kMaxDepth + 1));
        else if (r < 60 && !stored.empty()) { auto it = stored.begin(); std::advance(it, (long) rng.below(stored.size())); p = concretePattern(*it); }
        else p = randomPattern((int) rng.range(1, kMaxDepth + 1));
        note("shrink");
        log("SH" + patStr(p));
        ++C.shrinks;
        nontrivial = true;
        router.shrink(buildPattern(p));
        checkStructure("shrink", &p);
        if (!gCaseFailed) probeAfterShrink();
    }

    void run(int steps, bool structural) {
        for (int st = 0; st < steps && !gCaseFailed; ++st) {
            rt::crumb("router step %d: %s", st, gHist.size() > 170 ? gHist.c_str() + gHist.size() - 170 : gHist.c_str());
            std::vector<int> live;
            for (auto &s : subs) if (s->present) live.push_back(s->id);
            unsigned r = (unsigned) rng.below(1000), acc = 0;
            auto in = [&](unsigned w) { acc += w; return r < acc; };
            const char *opName = "";
            if (in(280) || subs.empty()) {
                if (subs.size() < 60) {
                    Key k = randomKey();
                    // re-subscribing under an existing key is frequent: several observers per subject
                    if (!live.empty() && rng.chance(350)) k = subs[live[rng.below(live.size())]]->key;
                    subscribe(k);
                    opName = "subscribe";
                }
            }
            else if (in(structural ? 230 : 330)) {
                std::vector<PLevel> p;
                unsigned q = (unsigned) rng.below(100);
                if (q < 4) p = {};   // the root key
                else if (q < 30 && !live.empty()) p = concretePattern(subs[live[rng.below(live.size())]]->key);
                else if (q < 50) p = allPattern((int) rng.range(1, kMaxDepth));
                else p = randomPattern((int) rng.range(1, kMaxDepth));
                notify(p, "C06");
                opName = "notify";
            }
            else if (in(120) && !live.empty()) {
                int t = live[rng.below(live.size())];
                note("unsubscribe");
                log("unsub" + std::to_string(t));
                (*subs[t]->handle)->unsubscribe();
                subs[t]->present = false;
                opName = "unsubscribe";
            }
            else if (in(50) && !live.empty()) { int t = live[rng.below(live.size())]; note("mute"); log("mute" + std::to_string(t)); (*subs[t]->handle)->mute(); subs[t]->muted = true; opName = "mute"; if (!(*subs[t]->handle)->isMuted()) fail("C06", "handle-state", site, "isMuted() is false right after mute()"); }
            else if (in(40) && !live.empty()) { int t = live[rng.below(live.size())]; note("unmute"); log("unmute" + std::to_string(t)); (*subs[t]->handle)->unmute(); subs[t]->muted = false; opName = "unmute"; if ((*subs[t]->handle)->isMuted()) fail("C06", "handle-state", site, "isMuted() is true right after unmute()"); }
            else if (in(70) && !live.empty()) { int t = live[rng.below(live.size())]; note("invalidate"); log("inval" + std::to_string(t)); subs[t]->invalidate(); subs[t]->valid = false; opName = "invalidate"; }
            else if (in(structural ? 210 : 110)) { shrink(); opName = ""; }
            if (!gCaseFailed && *opName && (structural || rng.chance(250))) checkStructure(opName, nullptr);
        }
        if (!gCaseFailed) {
            // final sweep: every depth by wildcard, then a full-depth shrink and the same sweep again
            for (int d = 1; d <= kMaxDepth && !gCaseFailed; ++d) notify(allPattern(d), "C06");
            if (!gCaseFailed) {
                auto p = allPattern(kMaxDepth);
                note("shrink");
                log("SH" + patStr(p));
                ++C.shrinks;
                router.shrink(buildPattern(p));
                checkStructure("shrink", &p);
                if (!gCaseFailed) probeAfterShrink();
            }
        }
    }
};

template<class Router>
void runCase(uint64_t seed, int steps, bool structural, const char *rname) {
    auto *r = new Runner<Router>(seed);
    r->run(steps, structural);
    ++C.histories;
    ++C.routerCount[rname];
    for (int d = 1; d <= kMaxDepth; ++d) ++C.sigCount[sigName[r->sigOfDepth[d]]];
    if (r->nontrivial) {
        ++C.nontrivialCases;
        C.fps.push_back(r->hist.get());
        if (C.samples.size() < 4 && gHist.size() < 600)
            C.samples.push_back(rt::Json().kv("router", rname).kv("signatureOfDepth1", sigName[r->sigOfDepth[1]]).kv("signatureOfDepth2", sigName[r->sigOfDepth[2]])
                                    .kv("signatureOfDepth3", sigName[r->sigOfDepth[3]]).kv("history", gHist).str());
    }
    if (!gCaseFailed) delete r;
}


// ------------------------------------------------------------------ sizes and situations the random histories do not reach
// (1) one key lives through more than 2^16 / 2^17 subscriptions while a resident observer stays subscribed;
// (2) keys and patterns of 255 .. 512 levels (level counts, recursion depth, depth());
// (3) an observer that throws: the exception reaches the caller of notify() and the router works as before,
//     in particular shrink still removes dead keys.
// All results are known exactly.
template<class Router>
void runSpecial(rt::Rng rng, const char *rname, bool structural) {
    Router router;
    char d[220];
    auto special = [&](const char *rule, const char *site, const std::string &what) { fail(structural ? "C13" : "C06", rule, site, std::string(d) + ": " + what); };
    unsigned kind = structural ? (unsigned) rng.range(1, 2) : (unsigned) rng.below(4);
    if (kind == 0) {
        static const int64_t sizes[] = {65537, 66000, 70000, 131100, 140000};
        int64_t n = rng.chance(400) ? (int64_t) rng.range(300, 3000) : sizes[rng.below(5)];
        snprintf(d, sizeof d, "%s long life: %lld subscribe/unsubscribe cycles at /a/b next to a resident observer", rname, (long long) n);
        gHist = d;
        rt::crumb("%s", d);
        Key key{"a", "b"};
        int resident = 0, temp = 0;
        USubscription res = router.template subscribe<>(buildKey(key), [&resident]() { ++resident; });
        for (int64_t k = 0; k < n && !gCaseFailed; ++k) {
            USubscription t = router.template subscribe<>(buildKey(key), [&temp]() { ++temp; });
            bool look = k < 3 || (k & (k + 1)) == 0 || (k >= 65530 && k <= 65540) || (k >= 131066 && k <= 131076) || rng.chance(2);
            if (look) {
                resident = temp = 0;
                size_t ret = router.notify(buildKey(key));
                if (resident != 1 || temp != 1 || ret != 1) { special("long-life-delivery", "cycle", "at cycle " + std::to_string(k) + " notify(/a/b) returned " + std::to_string(ret) + ", reached the resident " + std::to_string(resident) + " and the newcomer " + std::to_string(temp) + " time(s)"); break; }
            }
            t->unsubscribe();
            if (look || k + 1 == n) {
                resident = temp = 0;
                size_t ret = router.notify(buildKey(key));
                if (resident != 1 || temp != 0 || ret != 1 || !res->isValid()) { special("long-life-delivery", "cycle", "after the newcomer of cycle " + std::to_string(k) + " unsubscribed, notify(/a/b) returned " + std::to_string(ret) + ", reached the resident " + std::to_string(resident) + " time(s) (handle valid: " + std::to_string(res->isValid()) + ")"); break; }
            }
        }
        C.longLifeCycles += (uint64_t) n;
    } else if (kind == 1) {
        static const int depths[] = {255, 256, 257, 300, 511, 512};
        int D = depths[rng.below(6)], P = (D >= 256 && D % 256 >= 2) ? D % 256 : 3;   // P: what D wraps to in 8 bits (or a small depth)
        snprintf(d, sizeof d, "%s deep keys: observers at %d levels, at %d levels and at one level", rname, D, P);
        gHist = d;
        rt::crumb("%s", d);
        Key deep((size_t) D, "a"), mid((size_t) P, "a"), top{"a"};
        int cDeep = 0, cMid = 0, cTop = 0;
        USubscription sDeep = router.template subscribe<>(buildKey(deep), [&cDeep]() { ++cDeep; });
        USubscription sMid = router.template subscribe<>(buildKey(mid), [&cMid]() { ++cMid; });
        USubscription sTop = router.template subscribe<>(buildKey(top), [&cTop]() { ++cTop; });
        auto expectOnly = [&](const RoutingKey &pat, const std::string &name, int eDeep, int eMid, int eTop) {
            if (gCaseFailed) return;
            cDeep = cMid = cTop = 0;
            size_t ret = router.notify(pat);
            if (cDeep != eDeep || cMid != eMid || cTop != eTop || ret != (size_t) (eDeep + eMid + eTop))
                special("deep-key-delivery", "notify", "notify(" + name + ") returned " + std::to_string(ret) + " and reached the observers at " + std::to_string(D) + "/" + std::to_string(P) + "/1 levels " +
                        std::to_string(cDeep) + "/" + std::to_string(cMid) + "/" + std::to_string(cTop) + " time(s), expected " + std::to_string(eDeep) + "/" + std::to_string(eMid) + "/" + std::to_string(eTop));
        };
        expectOnly(buildKey(deep), "the " + std::to_string(D) + "-level key", 1, 0, 0);
        expectOnly(buildKey(mid), "the " + std::to_string(P) + "-level key", 0, 1, 0);
        expectOnly(buildKey(top), "the one-level key", 0, 0, 1);
        expectOnly(buildKey(Key{}), "the root key", 0, 0, 0);
        expectOnly(buildPattern(std::vector<PLevel>((size_t) D, PLevel{true, ".*", 0})), "a wildcard of " + std::to_string(D) + " levels", 1, 0, 0);
        expectOnly(buildKey(Key((size_t) D + 1, "a")), "a key one level deeper", 0, 0, 0);
        if (!gCaseFailed && router.depth() != (size_t) D + 1) special("wrong-depth", "depth", "depth() = " + std::to_string(router.depth()) + ", expected " + std::to_string(D + 1));
        if (!gCaseFailed && (!router.exists(buildKey(deep)) || router.exists(buildKey(Key((size_t) D + 1, "a"))) || !router.exists(buildKey(Key((size_t) D - 1, "a")))))
            special("wrong-exists", "exists", "exists() is wrong around the deepest key");
        if (!gCaseFailed) {
            sDeep->unsubscribe();
            router.shrink(buildPattern(std::vector<PLevel>((size_t) D, PLevel{true, ".*", 0})));
            size_t want = (size_t) P + 1;
            if (router.depth() != want) special("wrong-depth", "shrink", "after the deepest observer left and a full-depth wildcard shrink, depth() = " + std::to_string(router.depth()) + ", expected " + std::to_string(want));
            else if (router.exists(buildKey(deep)) || !router.exists(buildKey(mid))) special("wrong-exists", "shrink", "after that shrink exists() is wrong for the removed deep key or the surviving one");
            expectOnly(buildKey(mid), "the " + std::to_string(P) + "-level key after the shrink", 0, 1, 0);
        }
        ++C.deepKeyRuns;
    } else if (kind == 3) {
        // an observer that itself calls notify - on a second router of the same class, or on its own router: both calls
        // return the number of keys THEY matched, and both deliveries are complete
        bool same = rng.chance(400);
        snprintf(d, sizeof d, "%s nested notify from an observer (%s)", rname, same ? "on the same router" : "on a second router");
        gHist = d;
        rt::crumb("%s", d);
        Router second;
        Router &inner = same ? router : second;
        int cDev = 0, cLog = 0;
        size_t innerRet = 99;
        int nDev = (int) rng.range(2, 4), nLog = (int) rng.range(0, 3), bridgeAt = (int) rng.below((uint64_t) nDev);
        std::vector<std::unique_ptr<USubscription>> keep;
        for (int i = 0; i < nLog; ++i) keep.emplace_back(new USubscription(inner.template subscribe<>(buildKey(Key{"log", "l" + std::to_string(i)}), [&cLog]() { ++cLog; })));
        for (int i = 0; i < nDev; ++i)
            keep.emplace_back(new USubscription(router.template subscribe<>(buildKey(Key{"dev", "d" + std::to_string(i)}), [&, i]() {
                ++cDev;
                if (i == bridgeAt) innerRet = inner.notify(buildPattern({PLevel{false, "log", -1}, PLevel{true, ".*", 0}}));
            })));
        size_t outerRet = router.notify(buildPattern({PLevel{false, "dev", -1}, PLevel{true, ".*", 0}}));
        if (cDev != nDev || cLog != nLog || outerRet != (size_t) nDev || innerRet != (size_t) nLog)
            special("nested-notify", "notify", "the outer notify over /dev/{.*} returned " + std::to_string(outerRet) + " and reached " + std::to_string(cDev) + " of " + std::to_string(nDev) +
                    " observers; the notify over /log/{.*} issued by one of them returned " + std::to_string(innerRet) + " and reached " + std::to_string(cLog) + " of " + std::to_string(nLog));
        ++C.nestedNotifyRuns;
    } else {
        snprintf(d, sizeof d, "%s throwing observer at /t, then unsubscribe at /a/b and a full-depth wildcard shrink", rname);
        gHist = d;
        rt::crumb("%s", d);
        struct Boom {};
        bool armed = false;
        int cT = 0, cA = 0, cN = 0;
        USubscription sN = router.template subscribe<>(buildKey(Key{"t"}), [&cN]() { ++cN; });
        USubscription sT = router.template subscribe<>(buildKey(Key{"t"}), [&]() { ++cT; if (armed) throw Boom{}; });
        USubscription sA = router.template subscribe<>(buildKey(Key{"a", "b"}), [&cA]() { ++cA; });
        int rounds = (int) rng.range(1, 3);
        for (int k = 0; k < rounds && !gCaseFailed; ++k) {
            armed = true;
            bool caught = false;
            try { router.notify(buildKey(Key{"t"})); } catch (const Boom &) { caught = true; }
            armed = false;
            if (!caught) special("exception-lost", "notify", "the observer threw but notify() returned normally");
        }
        cT = cA = cN = 0;
        size_t ret = gCaseFailed ? 0 : router.notify(buildPattern(std::vector<PLevel>(1, PLevel{true, ".*", 0})));
        if (!gCaseFailed && (cT != 1 || cN != 1 || ret != 1)) special("delivery-after-exception", "notify", "after the exception notify(/{.*}) returned " + std::to_string(ret) + " and reached the two observers at /t " + std::to_string(cN) + "+" + std::to_string(cT) + " time(s)");
        if (!gCaseFailed) {
            sA->unsubscribe();
            router.shrink(buildPattern(std::vector<PLevel>(2, PLevel{true, ".*", 0})));
            if (router.exists(buildKey(Key{"a", "b"})) || router.exists(buildKey(Key{"a"})) || !router.exists(buildKey(Key{"t"})) || router.depth() != 2)
                special("dead-key-survives-shrink", "shrink", "after an observer threw earlier, a full-depth wildcard shrink left the dead keys /a/b or /a behind (depth() = " + std::to_string(router.depth()) + ")");
        }
        ++C.throwingObserverRuns;
    }
    ++C.specialRuns;
    ++C.histories;
    ++C.routerCount[rname];
    if (!gCaseFailed) {
        ++C.nontrivialCases;
        rt::Hash h;
        for (char c : gHist) h.add((uint64_t) c);
        C.fps.push_back(h.get());
    }
}

void buildUniverse() {
    std::vector<Key> level = {Key{}};
    for (int d = 1; d <= kMaxDepth; ++d) {
        std::vector<Key> next;
        for (auto &k : level)
            for (auto &n : kNames) { Key c = k; c.push_back(n); next.push_back(c); gUniverse.push_back(c); }
        level = next;
    }
}

} // namespace

int main(int argc, char **argv) {
    rt::init(argc, argv);
    rt::cpuBudgetPerCase(240);   // single-threaded, deterministic: a case that burns 240 s of CPU time does not terminate
    bool structural = rt::st().prop == "C13";
    gProp = structural ? "C13" : "C06";
    for (auto &s : kRegexSrc) gRegex.emplace_back(s);
    buildUniverse();
    int maxSteps = (int) rt::optInt("steps", 70);
    for (uint64_t c = rt::st().from; c < rt::st().from + rt::st().count; ++c) {
        rt::setCase(c);
        rt::Rng rng(rt::mix(rt::st().seed, c));
        gHist.clear();
        gCaseFailed = false;
        if (rng.chance((unsigned) rt::optInt("special", 4))) {
            if (rng.chance(500)) runSpecial<SubjectRouter>(rng, "SubjectRouter", structural);
            else runSpecial<ConcurrentSubjectRouter>(rng, "ConcurrentSubjectRouter", structural);
            continue;
        }
        int steps = (int) (rng.chance(250) ? rng.range(2, 12) : rng.range(10, maxSteps));
        uint64_t s = rng.next();
        if (rng.chance(500)) runCase<SubjectRouter>(s, steps, structural, "SubjectRouter");
        else runCase<ConcurrentSubjectRouter>(s, steps, structural, "ConcurrentSubjectRouter");
    }
    rt::dumpFingerprints(C.fps);
    rt::finish(rt::Json().kv("engine", "h_router").kv("histories", C.histories).kv("ops", C.ops).kv("notifies", C.notifies)
                   .kv("wildcardNotifies", C.wildcardNotifies).kv("multiReceiverNotifies", C.multiReceiverNotifies).kv("byValueMultiReceiver", C.byValueMulti)
                   .kv("calls", C.calls).kv("shrinks", C.shrinks).kv("removedKeys", C.removedKeys).kv("measures", C.measures)
                   .kv("existsProbes", C.existsProbes).kv("probesAfterShrink", C.probesAfterShrink).kv("fullShrinks", C.fullShrinks)
                   .kv("lazyRemovals", C.lazyRemovals).kv("specialRuns", C.specialRuns).kv("longLifeCycles", C.longLifeCycles).kv("deepKeyRuns", C.deepKeyRuns).kv("throwingObserverRuns", C.throwingObserverRuns).kv("nestedNotifyRuns", C.nestedNotifyRuns).kv("nontrivialCases", C.nontrivialCases).kv("universeKeys", (uint64_t) gUniverse.size())
                   .raw("opCount", rt::jsonCounts(C.opCount)).raw("signatures", rt::jsonCounts(C.sigCount)).raw("routers", rt::jsonCounts(C.routerCount))
                   .raw("samples", rt::jsonArray(C.samples, false)));
    return 0;
}
