// Engine for C11: operations on one ConcurrentSubjectRouter from many threads
// behave as if executed one at a time.
//
// One case = one history: 4-16 threads mix notify (concrete and wildcard
// patterns), subscribe, USubscription::unsubscribe, shrink, exists, depth on a
// small key universe (few keys, so operations collide). Every operation is
// stamped at call and return, every callback at entry and exit (callbacks are
// slow and never call back into the router). Offline rules, each a necessary
// condition of linearizability (DESIGN.md, C11):
//   1. no callback of O is entered after unsubscribe(O) has returned;
//   2. no subscribe/unsubscribe/shrink is called and returns entirely inside
//      one delivery (between a notify's first callback entry and last exit);
//   3. the observers a notify reached / missed must be explained by one
//      instant between its call and return (interval arithmetic, exact);
//      nobody is reached twice, nobody whose key does not match;
//   4. exists(k) is true while a completed subscription at or below k has
//      not begun to be unsubscribed; depth() covers such keys.
#include "../rt/rt.h"
#include "../rt/syncspy.h"

#include <tulz/observer/routing/ConcurrentSubjectRouter.h>
#include <tulz/observer/routing/RoutingKeyBuilder.h>
#include <tulz/observer/routing/SubjectRouter.h>

#include <algorithm>
#include <memory>
#include <mutex>
#include <sched.h>
#include <thread>
#include <unistd.h>

using namespace tulz;

namespace {

using Key = std::vector<std::string>;
const std::vector<std::string> kNames = {"a", "b", "c", "d", "e", "f"};
size_t gNameCount = 2;   // per history: 2 names (operations collide on few keys) or 6 (the tree is restructured all the time)
int gMaxDepth = 2;
constexpr uint64_t kInf = ~0ULL;

struct Cover {
    uint64_t histories = 0, ops = 0, notifies = 0, notifiesWithCallbacks = 0, callbacks = 0, subscribes = 0, unsubscribes = 0, shrinks = 0, existsCalls = 0, depthCalls = 0;
    uint64_t fastCases = 0, fastOps = 0, fastThrows = 0, fastStale = 0, crowdCases = 0, maxSimultaneousDeliveries = 0, forwardCases = 0, forwardedDeliveries = 0, forwardWritesJudged = 0;
    uint64_t linHistories = 0, linOps = 0, linNodes = 0, linInconclusive = 0, linWithOverlap = 0;
    uint64_t writesOverlappingNotify = 0, snapshotsJudged = 0, snapshotsWithConcurrentWrite = 0, missedJudged = 0, maxThreads = 0, nontrivialCases = 0;
    std::vector<uint64_t> fps;
    std::vector<std::string> samples;
} C;

std::string gDesc;
bool gCaseFailed = false;
void fail(const char *rule, const char *site, const std::string &d) {
    gCaseFailed = true;
    rt::violation("C11", rule, site, d + " | case: " + gDesc);
}

struct CbRec { int obs; uint64_t entry, exit; };
enum OpKind { ONotify, OSubscribe, OUnsubscribe, OShrink, OExists, ODepth };
struct Op {
    OpKind kind;
    std::vector<int> pattern;      // per level: index into kNames, or -1 = wildcard
    int obs = -1;
    uint64_t call = 0, ret = 0;
    uint64_t result = 0;
    std::vector<CbRec> cbs;        // notify only
};
struct ObsRec {
    Key key;
    std::atomic<uint64_t> subCall{0}, subRet{0}, unsubCall{kInf}, unsubRet{kInf};
};

std::vector<std::unique_ptr<ObsRec>> gObs;
thread_local Op *tlsNotify = nullptr;
thread_local rt::Rng *tlsRng = nullptr;

std::string patStr(const std::vector<int> &p) {
    std::string s;
    for (int l : p) s += l < 0 ? "/*" : "/" + kNames[l];
    return s.empty() ? "/" : s;
}
std::string keyStr(const Key &k) { std::string s; for (auto &l : k) s += "/" + l; return s; }
bool matches(const std::vector<int> &p, const Key &k) {
    if (p.size() != k.size()) return false;
    for (size_t i = 0; i < p.size(); ++i) if (p[i] >= 0 && kNames[p[i]] != k[i]) return false;
    return true;
}
RoutingKey build(const std::vector<int> &p) {
    RoutingKeyBuilder b;
    for (int l : p) { if (l < 0) b.all(); else b.level(kNames[l]); }
    return b.build();
}

// disjoint closed integer intervals
using Ivs = std::vector<std::pair<uint64_t, uint64_t>>;
Ivs intersect(const Ivs &a, uint64_t lo, uint64_t hi) {
    Ivs r;
    for (auto [x, y] : a) { uint64_t l = std::max(x, lo), h = std::min(y, hi); if (l <= h) r.push_back({l, h}); }
    return r;
}
Ivs subtract(const Ivs &a, uint64_t lo, uint64_t hi) {   // remove [lo, hi]
    Ivs r;
    for (auto [x, y] : a) {
        if (hi < x || lo > y) { r.push_back({x, y}); continue; }
        if (x < lo) r.push_back({x, lo - 1});
        if (hi < y && hi != kInf) r.push_back({hi + 1, y});
    }
    return r;
}

void judge(std::vector<std::vector<Op>> &logs) {
    // all write operations
    std::vector<const Op *> writes;
    for (auto &l : logs) for (auto &o : l) if (o.kind == OSubscribe || o.kind == OUnsubscribe || o.kind == OShrink) writes.push_back(&o);
    for (size_t t = 0; t < logs.size() && !gCaseFailed; ++t)
        for (auto &n : logs[t]) {
            if (gCaseFailed) break;
            if (n.kind == OExists) {
                // rule 4
                for (auto &op : gObs) {
                    ObsRec &o = *op;
                    if (o.key.size() < n.pattern.size()) continue;
                    Key prefix(o.key.begin(), o.key.begin() + (long) n.pattern.size());
                    if (!matches(n.pattern, prefix)) continue;
                    if (o.subRet.load() && o.subRet.load() < n.call && o.unsubCall.load() > n.ret && !n.result)
                        return fail("exists-false-for-live-key", "exists", "exists(" + patStr(n.pattern) + ") returned false although observer at " + keyStr(o.key) + " was subscribed before the call and not unsubscribed before the return");
                }
                continue;
            }
            if (n.kind == ODepth) {
                size_t need = 1;
                for (auto &op : gObs) { ObsRec &o = *op; if (o.subRet.load() && o.subRet.load() < n.call && o.unsubCall.load() > n.ret) need = std::max(need, 1 + o.key.size()); }
                if (n.result < need || n.result > (uint64_t) gMaxDepth + 1) return fail("wrong-depth", "depth", "depth() = " + std::to_string(n.result) + " while a live subscription needs at least " + std::to_string(need));
                continue;
            }
            if (n.kind != ONotify) continue;
            ++C.notifies;
            // rule 1 and per-observer sanity
            std::map<int, int> count;
            for (auto &cb : n.cbs) {
                ObsRec &o = *gObs[cb.obs];
                ++count[cb.obs];
                if (cb.entry > o.unsubRet.load())
                    return fail("callback-after-unsubscribe-returned", "notify", "observer " + std::to_string(cb.obs) + " at " + keyStr(o.key) + " was entered at stamp " + std::to_string(cb.entry) + " after its unsubscribe() had returned at " + std::to_string(o.unsubRet.load()));
                if (cb.entry < o.subCall.load()) return fail("callback-before-subscribe", "notify", "observer invoked before its subscribe() was called");
                if (!matches(n.pattern, o.key)) return fail("callback-for-non-matching-key", "notify", "notify " + patStr(n.pattern) + " invoked observer at " + keyStr(o.key));
            }
            for (auto &[id, k] : count) if (k != 1) return fail("reached-twice", "notify", "notify " + patStr(n.pattern) + " invoked observer " + std::to_string(id) + " " + std::to_string(k) + " times");
            // rule 2
            if (!n.cbs.empty()) {
                ++C.notifiesWithCallbacks;
                uint64_t e = kInf, x = 0;
                for (auto &cb : n.cbs) { e = std::min(e, cb.entry); x = std::max(x, cb.exit); }
                for (const Op *w : writes) {
                    if (w->call > n.call && w->call < n.ret) ++C.writesOverlappingNotify;
                    if (w->call > e && w->ret < x) {
                        static const char *wn[] = {"", "subscribe", "unsubscribe", "shrink"};
                        return fail("write-inside-delivery", wn[w->kind], std::string(wn[w->kind]) + " was called at " + std::to_string(w->call) + " and returned at " + std::to_string(w->ret) + " entirely inside the delivery of notify " + patStr(n.pattern) + " (first callback entry " + std::to_string(e) + ", last exit " + std::to_string(x) + ")");
                    }
                }
            }
            // rule 3: one instant t in [call, ret] must explain reached and missed
            Ivs feas = {{n.call, n.ret}};
            bool concurrentWrite = false;
            size_t missed = 0;
            for (size_t i = 0; i < gObs.size(); ++i) {
                ObsRec &o = *gObs[i];
                if (!matches(n.pattern, o.key)) continue;
                uint64_t sc = o.subCall.load(), sr = o.subRet.load(), uc = o.unsubCall.load(), ur = o.unsubRet.load();
                if (!sc) continue;   // never attempted
                if (!sr) sr = kInf;  // subscribe did not return (cannot happen in a finished history)
                bool reached = count.count((int) i) != 0;
                if ((sc < n.ret && sr > n.call) || (uc != kInf && uc < n.ret && ur > n.call)) concurrentWrite = true;
                if (reached) feas = intersect(feas, sc + 1, ur == kInf ? kInf : ur - 1);
                else if (sr <= n.ret && uc >= n.call) { feas = subtract(feas, sr, uc); ++missed; }
                if (feas.empty()) {
                    ++C.snapshotsJudged;
                    return fail("no-consistent-snapshot", "notify", "notify " + patStr(n.pattern) + " (call " + std::to_string(n.call) + ", return " + std::to_string(n.ret) + ") reached " + std::to_string(count.size()) +
                                " observer(s); no single instant explains it: observer " + std::to_string(i) + " at " + keyStr(o.key) + (reached ? " was reached" : " was missed") + " (subscribe " + std::to_string(sc) + ".." + std::to_string(sr) + ", unsubscribe " + (uc == kInf ? "never" : std::to_string(uc) + ".." + std::to_string(ur)) + ")");
                }
            }
            ++C.snapshotsJudged;
            C.missedJudged += missed;
            if (concurrentWrite) ++C.snapshotsWithConcurrentWrite;
        }
}

void runCase(uint64_t c, rt::Rng rng) {
    int nT = (int) std::vector<int>{4, 4, 6, 8, 12, 16}[rng.below(6)];
    int opsPerThread = (int) rng.range(40, 140);
    bool churn = rng.chance(350);
    gNameCount = churn ? 6 : 2;
    gMaxDepth = churn ? 3 : 2;
    int cpus = rng.chance(250) ? 2 : rng.chance(250) ? 4 : 0;
    spy::Delays d;
    int profile = (int) rng.below(3);
    if (profile == 1) { d.afterWake = 200; d.maxUs = 100; }
    else if (profile == 2) { d.afterWake = 100; d.condEntry = 80; d.beforeLock = 40; d.afterUnlock = 60; d.beforeNotify = 80; d.maxUs = 60; d.spurious = 100; }
    char desc[160];
    snprintf(desc, sizeof desc, "history case %" PRIu64 ": threads=%d ops/thread=%d cpus=%d delayProfile=%d names=%zu depth<=%d", c, nT, opsPerThread, cpus, profile, gNameCount, gMaxDepth);
    gDesc = desc;
    rt::crumb("%s", desc);
    C.maxThreads = std::max<uint64_t>(C.maxThreads, (uint64_t) nT);

    auto *router = new ConcurrentSubjectRouter();
    spy::unwatchAll();
    spy::watch(router, sizeof(ConcurrentSubjectRouter));
    spy::pinCpus(cpus, (int) rt::optInt("cpubase", 0));
    spy::configure(d, rt::mix(rt::st().seed, c));
    if (!profile) spy::disableDelays();
    gObs.clear();
    size_t maxObs = (size_t) nT * (size_t) opsPerThread;
    gObs.reserve(maxObs);
    for (size_t i = 0; i < maxObs; ++i) gObs.emplace_back(new ObsRec());
    std::atomic<int> nextObs{0};
    std::atomic<int> go{0};
    std::vector<std::vector<Op>> logs((size_t) nT);
    std::vector<std::thread> th;
    for (int t = 0; t < nT; ++t) {
        logs[(size_t) t].reserve((size_t) opsPerThread + 8);
        th.emplace_back([&, t, seed = rng.next()] {
            rt::Rng r(seed);
            tlsRng = &r;
            spy::self()->role.store(t);
            std::vector<std::pair<int, std::unique_ptr<USubscription>>> mine;
            auto &log = logs[(size_t) t];
            auto randomPattern = [&](bool concreteOnly) {
                std::vector<int> p;
                int depth = (int) r.range(1, gMaxDepth);
                for (int i = 0; i < depth; ++i) p.push_back(!concreteOnly && r.chance(400) ? -1 : (int) r.below(gNameCount));
                return p;
            };
            auto unsubscribe = [&](size_t idx) {
                int id = mine[idx].first;
                log.push_back(Op{OUnsubscribe, {}, id});
                Op &o = log.back();
                o.call = spy::stamp();
                gObs[(size_t) id]->unsubCall.store(o.call);
                (*mine[idx].second)->unsubscribe();
                o.ret = spy::stamp();
                gObs[(size_t) id]->unsubRet.store(o.ret);
                mine.erase(mine.begin() + (long) idx);
            };
            while (!go.load(std::memory_order_acquire)) sched_yield();
            for (int k = 0; k < opsPerThread; ++k) {
                unsigned q = (unsigned) r.below(100);
                if (churn && q >= 62 && q < 80 && r.chance(400)) q = 90;   // churn histories: fewer unsubscribes, more exists/depth probes
                if (q < 38) {
                    log.push_back(Op{ONotify, randomPattern(false)});
                    Op &o = log.back();
                    o.cbs.reserve(16);
                    RoutingKey rk = build(o.pattern);
                    tlsNotify = &o;
                    o.call = spy::stamp();
                    o.result = router->notify(rk);
                    o.ret = spy::stamp();
                    tlsNotify = nullptr;
                } else if (q < 62) {
                    int id = nextObs.fetch_add(1);
                    ObsRec &rec = *gObs[(size_t) id];
                    auto p = randomPattern(true);
                    for (int l : p) rec.key.push_back(kNames[(size_t) l]);
                    log.push_back(Op{OSubscribe, p, id});
                    Op &o = log.back();
                    RoutingKey rk = build(p);
                    o.call = spy::stamp();
                    rec.subCall.store(o.call);
                    auto sub = std::make_unique<USubscription>(router->subscribe(rk, [id]() {
                        Op *n = tlsNotify;
                        uint64_t e = spy::stamp();
                        // slow callback: lets other operations try to slip in
                        unsigned w = tlsRng ? (unsigned) tlsRng->below(4) : 0;
                        if (w == 1) sched_yield(); else if (w == 2) usleep(20 + (tlsRng ? (unsigned) tlsRng->below(150) : 0));
                        uint64_t x = spy::stamp();
                        if (n) n->cbs.push_back(CbRec{id, e, x});
                        else rt::violation("C11", "callback-outside-notify", "callback", "observer invoked on a thread that is not inside notify()");
                    }));
                    o.ret = spy::stamp();
                    rec.subRet.store(o.ret);
                    mine.emplace_back(id, std::move(sub));
                } else if (q < 80) {
                    if (!mine.empty()) unsubscribe(r.below(mine.size()));
                } else if (q < 88) {
                    log.push_back(Op{OShrink, randomPattern(false)});
                    Op &o = log.back();
                    RoutingKey rk = build(o.pattern);
                    o.call = spy::stamp();
                    router->shrink(rk);
                    o.ret = spy::stamp();
                } else if (q < 96) {
                    log.push_back(Op{OExists, randomPattern(false)});
                    Op &o = log.back();
                    RoutingKey rk = build(o.pattern);
                    o.call = spy::stamp();
                    o.result = router->exists(rk);
                    o.ret = spy::stamp();
                } else {
                    log.push_back(Op{ODepth, {}});
                    Op &o = log.back();
                    o.call = spy::stamp();
                    o.result = router->depth();
                    o.ret = spy::stamp();
                }
                spy::noteProgress();
            }
            // leave nothing subscribed: half of the threads unsubscribe what they still hold
            if (t % 2 == 0) while (!mine.empty()) unsubscribe(mine.size() - 1);
            tlsRng = nullptr;
            // remaining handles die with `mine`; their observers are destroyed with the router
        });
    }
    go.store(1, std::memory_order_release);
    for (auto &x : th) x.join();
    spy::disableDelays();
    spy::pinCpus(0);
    size_t used = (size_t) nextObs.load();
    gObs.resize(used);
    rt::Hash h;
    for (auto &l : logs) for (auto &o : l) {
        ++C.ops;
        switch (o.kind) { case OSubscribe: ++C.subscribes; break; case OUnsubscribe: ++C.unsubscribes; break; case OShrink: ++C.shrinks; break; case OExists: ++C.existsCalls; break; case ODepth: ++C.depthCalls; break; default: break; }
        C.callbacks += o.cbs.size();
    }
    uint64_t before = C.snapshotsWithConcurrentWrite;
    judge(logs);
    // fingerprint: order of operation returns by (thread, kind)
    std::vector<std::pair<uint64_t, uint32_t>> ev;
    for (size_t t = 0; t < logs.size(); ++t) for (auto &o : logs[t]) ev.push_back({o.ret, (uint32_t) (t * 8 + o.kind)});
    std::sort(ev.begin(), ev.end());
    for (size_t i = 0; i < ev.size() && i < 3000; ++i) h.add(ev[i].second);
    ++C.histories;
    if (C.snapshotsWithConcurrentWrite > before) { ++C.nontrivialCases; C.fps.push_back(h.get()); }
    if (C.samples.size() < 3) C.samples.push_back(rt::Json().kv("what", desc).kv("operations", (uint64_t) ev.size()).kv("observers", (uint64_t) used).str());
    if (!gCaseFailed) delete router;
}


// ------------------------------------------------------------------ small histories: full linearizability
// "Behave as if executed one at a time": a history is accepted iff some total order of its operations,
// consistent with real time (ret(a) < call(b) => a before b), replayed on the *sequential* SubjectRouter,
// gives every operation the result it returned (notify: return value and set of observers reached;
// exists / depth: the value). The sequential SubjectRouter itself is the specification.
struct LinOp {
    const Op *op;
    std::vector<int> reached;   // sorted observer ids (notify)
};

struct LinChecker {
    std::vector<LinOp> ops;
    std::vector<std::vector<int>> mustPrecede;   // indices that must come before i
    uint64_t nodes = 0, maxNodes = 400000;
    bool exhausted = false;

    // replays `order` on a fresh sequential router; returns true iff the last operation's result matches
    bool replayMatches(const std::vector<int> &order) {
        SubjectRouter model;
        std::map<int, std::unique_ptr<USubscription>> handles;
        std::vector<int> hit;
        bool ok = true;
        for (size_t k = 0; k < order.size(); ++k) {
            const LinOp &lo = ops[(size_t) order[k]];
            const Op &o = *lo.op;
            bool last = k + 1 == order.size();
            switch (o.kind) {
                case OSubscribe: {
                    int id = o.obs;
                    handles[id] = std::make_unique<USubscription>(model.subscribe(build(o.pattern), [id, &hit]() { hit.push_back(id); }));
                    break;
                }
                case OUnsubscribe: {
                    auto it = handles.find(o.obs);
                    if (it == handles.end()) return false;   // unsubscribe before its subscribe: not a legal order
                    (*it->second)->unsubscribe();
                    handles.erase(it);
                    break;
                }
                case OShrink: model.shrink(build(o.pattern)); break;
                case OExists: { bool r = model.exists(build(o.pattern)); if (last) ok = r == (o.result != 0); break; }
                case ODepth: { size_t r = model.depth(); if (last) ok = r == o.result; break; }
                case ONotify: {
                    hit.clear();
                    size_t r = model.notify(build(o.pattern));
                    if (last) {
                        std::sort(hit.begin(), hit.end());
                        ok = r == o.result && hit == lo.reached;
                    }
                    break;
                }
            }
        }
        return ok;
    }

    bool dfs(std::vector<int> &order, std::vector<char> &used) {
        if (order.size() == ops.size()) return true;
        for (size_t i = 0; i < ops.size(); ++i) {
            if (used[i]) continue;
            bool ready = true;
            for (int p : mustPrecede[i]) if (!used[(size_t) p]) { ready = false; break; }
            if (!ready) continue;
            if (++nodes > maxNodes) { exhausted = true; return false; }
            order.push_back((int) i);
            used[i] = 1;
            // every prefix must be consistent: check the result of the operation just appended
            if (replayMatches(order) && dfs(order, used)) return true;
            if (exhausted) return false;
            used[i] = 0;
            order.pop_back();
        }
        return false;
    }
};

void runLinCase(uint64_t c, rt::Rng rng) {
    gNameCount = 2;
    gMaxDepth = 2;
    int nT = (int) rng.range(2, 4);
    int opsPerThread = (int) rng.range(2, nT == 4 ? 3 : 4);
    spy::Delays d;
    int profile = (int) rng.below(3);
    if (profile == 1) { d.afterWake = 300; d.maxUs = 120; }
    else if (profile == 2) { d.afterWake = 150; d.condEntry = 100; d.beforeLock = 60; d.afterUnlock = 80; d.beforeNotify = 100; d.maxUs = 80; d.spurious = 100; }
    char desc[160];
    snprintf(desc, sizeof desc, "small history case %" PRIu64 ": threads=%d ops/thread=%d delayProfile=%d", c, nT, opsPerThread, profile);
    gDesc = desc;
    rt::crumb("%s", desc);
    auto *router = new ConcurrentSubjectRouter();
    spy::unwatchAll();
    spy::watch(router, sizeof(ConcurrentSubjectRouter));
    spy::configure(d, rt::mix(rt::st().seed, c));
    if (!profile) spy::disableDelays();
    gObs.clear();
    size_t maxObs = (size_t) nT * (size_t) opsPerThread + 4;
    for (size_t i = 0; i < maxObs; ++i) gObs.emplace_back(new ObsRec());
    std::atomic<int> nextObs{0};
    std::atomic<int> go{0};
    std::vector<std::vector<Op>> logs((size_t) nT + 1);
    // a prologue on the main thread gives the history something to collide on
    std::vector<std::pair<int, std::unique_ptr<USubscription>>> pre;
    auto doSubscribe = [&](std::vector<Op> &log, std::vector<std::pair<int, std::unique_ptr<USubscription>>> &mine, rt::Rng &r) {
        int id = nextObs.fetch_add(1);
        ObsRec &rec = *gObs[(size_t) id];
        std::vector<int> p;
        int depth = (int) r.range(1, 2);
        for (int i = 0; i < depth; ++i) p.push_back((int) r.below(gNameCount));
        for (int l : p) rec.key.push_back(kNames[(size_t) l]);
        log.push_back(Op{OSubscribe, p, id});
        Op &o = log.back();
        o.call = spy::stamp();
        rec.subCall.store(o.call);
        auto sub = std::make_unique<USubscription>(router->subscribe(build(p), [id]() {
            Op *n = tlsNotify;
            uint64_t e = spy::stamp();
            unsigned w = tlsRng ? (unsigned) tlsRng->below(3) : 0;
            if (w == 1) sched_yield(); else if (w == 2) usleep(30 + (tlsRng ? (unsigned) tlsRng->below(200) : 0));
            if (n) n->cbs.push_back(CbRec{id, e, spy::stamp()});
        }));
        o.ret = spy::stamp();
        rec.subRet.store(o.ret);
        mine.emplace_back(id, std::move(sub));
    };
    {
        rt::Rng r(rng.next());
        logs[(size_t) nT].reserve(8);
        int n0 = (int) rng.range(0, 3);
        for (int i = 0; i < n0; ++i) doSubscribe(logs[(size_t) nT], pre, r);
    }
    std::vector<std::thread> th;
    for (int t = 0; t < nT; ++t) {
        logs[(size_t) t].reserve((size_t) opsPerThread + 2);
        th.emplace_back([&, t, seed = rng.next()] {
            rt::Rng r(seed);
            tlsRng = &r;
            std::vector<std::pair<int, std::unique_ptr<USubscription>>> mine;
            auto &log = logs[(size_t) t];
            auto pattern = [&](bool wild) {
                std::vector<int> p;
                int depth = (int) r.range(1, 2);
                for (int i = 0; i < depth; ++i) p.push_back(wild && r.chance(450) ? -1 : (int) r.below(gNameCount));
                return p;
            };
            while (!go.load(std::memory_order_acquire)) sched_yield();
            for (int k = 0; k < opsPerThread; ++k) {
                unsigned q = (unsigned) r.below(100);
                if (q < 34) {
                    log.push_back(Op{ONotify, pattern(true)});
                    Op &o = log.back();
                    o.cbs.reserve(16);
                    tlsNotify = &o;
                    o.call = spy::stamp();
                    o.result = router->notify(build(o.pattern));
                    o.ret = spy::stamp();
                    tlsNotify = nullptr;
                } else if (q < 56) doSubscribe(log, mine, r);
                else if (q < 72) {
                    if (!mine.empty()) {
                        size_t idx = r.below(mine.size());
                        int id = mine[idx].first;
                        log.push_back(Op{OUnsubscribe, {}, id});
                        Op &o = log.back();
                        o.call = spy::stamp();
                        (*mine[idx].second)->unsubscribe();
                        o.ret = spy::stamp();
                        mine.erase(mine.begin() + (long) idx);
                    }
                } else if (q < 82) { log.push_back(Op{OShrink, pattern(true)}); Op &o = log.back(); o.call = spy::stamp(); router->shrink(build(o.pattern)); o.ret = spy::stamp(); }
                else if (q < 93) { log.push_back(Op{OExists, pattern(true)}); Op &o = log.back(); o.call = spy::stamp(); o.result = router->exists(build(o.pattern)); o.ret = spy::stamp(); }
                else { log.push_back(Op{ODepth, {}}); Op &o = log.back(); o.call = spy::stamp(); o.result = router->depth(); o.ret = spy::stamp(); }
            }
            tlsRng = nullptr;
        });
    }
    go.store(1, std::memory_order_release);
    for (auto &x : th) x.join();
    spy::disableDelays();

    LinChecker lc;
    for (auto &l : logs) for (auto &o : l) {
        LinOp lo{&o, {}};
        for (auto &cb : o.cbs) lo.reached.push_back(cb.obs);
        std::sort(lo.reached.begin(), lo.reached.end());
        lc.ops.push_back(lo);
    }
    size_t n = lc.ops.size();
    lc.mustPrecede.resize(n);
    for (size_t i = 0; i < n; ++i)
        for (size_t j = 0; j < n; ++j)
            if (i != j && lc.ops[j].op->ret < lc.ops[i].op->call) lc.mustPrecede[i].push_back((int) j);
    std::vector<int> order;
    std::vector<char> used(n, 0);
    bool ok = lc.dfs(order, used);
    ++C.linHistories;
    C.linOps += n;
    C.linNodes += lc.nodes;
    if (lc.exhausted) ++C.linInconclusive;
    else if (!ok) {
        std::string h;
        static const char *kn[] = {"notify", "subscribe", "unsubscribe", "shrink", "exists", "depth"};
        for (size_t t = 0; t < logs.size(); ++t) for (auto &o : logs[t]) {
            h += "T" + std::to_string(t) + ":" + kn[o.kind] + (o.kind == ODepth || o.kind == OUnsubscribe ? "" : patStr(o.pattern)) + (o.obs >= 0 ? "#" + std::to_string(o.obs) : "") + "[" + std::to_string(o.call) + "," + std::to_string(o.ret) + "]";
            if (o.kind == ONotify) { h += "->" + std::to_string(o.result) + "{"; for (auto &cb : o.cbs) h += std::to_string(cb.obs) + " "; h += "}"; }
            if (o.kind == OExists || o.kind == ODepth) h += "->" + std::to_string(o.result);
            h += "; ";
        }
        fail("not-linearizable", "small-history", "no order of the " + std::to_string(n) + " operations that respects real time reproduces their results on the sequential router: " + h);
    } else {
        bool concurrent = false;
        for (size_t i = 0; i < n && !concurrent; ++i) for (size_t j = i + 1; j < n; ++j)
            if (lc.ops[i].op->call < lc.ops[j].op->ret && lc.ops[j].op->call < lc.ops[i].op->ret) { concurrent = true; break; }
        if (concurrent) {
            ++C.linWithOverlap;
            rt::Hash hs;
            std::vector<std::pair<uint64_t, int>> ev;
            for (size_t i = 0; i < n; ++i) ev.push_back({lc.ops[i].op->ret, (int) lc.ops[i].op->kind});
            std::sort(ev.begin(), ev.end());
            for (auto &e : ev) hs.add((uint64_t) e.second);
            hs.add(n); hs.add(c);
            C.fps.push_back(hs.get());
            ++C.nontrivialCases;
        }
    }
    ++C.histories;
    if (!gCaseFailed) { pre.clear(); delete router; }
}

// ------------------------------------------------------------------ fast churn with exactly known answers
// Threads own disjoint parts of the key space, so every result is known although the tree is restructured
// at full speed: a persistent subscription at /f/a (subscribed before the threads start) must always exist,
// always be reached exactly once by notify(/f/a) and by the two-level wildcard, and depth() must cover it;
// each writer subscribes below its own first-level name, must reach exactly its own observer there, then
// unsubscribes and shrinks. No callback sleeps: this is the high-rate complement of the stamped histories.
void runFastCase(uint64_t c, rt::Rng rng) {
    gNameCount = 6;
    gMaxDepth = 3;
    int writers = (int) rng.range(2, 4), readers = (int) rng.range(2, 5);
    int iters = (int) rt::optInt("fastiters", 1500);
    spy::Delays d;
    int profile = (int) rng.below(3);
    if (profile == 1) { d.afterWake = 100; d.maxUs = 30; }
    else if (profile == 2) { d.beforeLock = 40; d.afterUnlock = 40; d.maxUs = 20; d.spurious = 100; }
    char desc[160];
    snprintf(desc, sizeof desc, "fast churn case %" PRIu64 ": writers=%d readers=%d iterations=%d delayProfile=%d", c, writers, readers, iters, profile);
    gDesc = desc;
    rt::crumb("%s", desc);
    auto *router = new ConcurrentSubjectRouter();
    spy::unwatchAll();
    spy::watch(router, sizeof(ConcurrentSubjectRouter));
    spy::configure(d, rt::mix(rt::st().seed, c));
    if (!profile) spy::disableDelays();
    gObs.clear();
    std::atomic<int> go{0};
    std::atomic<uint64_t> bad{0}, ops{0};
    std::string firstBad;
    std::mutex badM;
    auto report = [&](const std::string &what) {
        if (bad.fetch_add(1) == 0) { std::lock_guard l{badM}; firstBad = what; }
    };
    const std::vector<int> P = {5, 0};                      // /f/a
    auto cb = [](int id) { return [id]() { if (Op *n = tlsNotify) n->cbs.push_back(CbRec{id, 0, 0}); }; };
    USubscription persistent = router->subscribe(build(P), cb(0));
    // an observer that throws when asked to: the exception travels through notify() to the caller and must not
    // leave the router's lock behind (later subscribe/unsubscribe/shrink calls would block for ever)
    struct Boom {};
    const std::vector<int> E = {4};                         // /e
    static thread_local bool tlsThrow = false;
    USubscription thrower = router->subscribe(build(E), []() { if (tlsThrow) throw Boom{}; });
    std::atomic<uint64_t> thrown{0}, stale{0};
    std::vector<std::thread> th;
    for (int w = 0; w < writers; ++w)
        th.emplace_back([&, w, seed = rng.next()] {
            rt::Rng r(seed);
            while (!go.load(std::memory_order_acquire)) sched_yield();
            for (int k = 0; k < iters && !bad.load(std::memory_order_relaxed); ++k) {
                std::vector<int> key = {w, (int) r.below(2), (int) r.below(2)};
                if (r.chance(300)) key.pop_back();
                int id = 100 + w;
                USubscription sub = router->subscribe(build(key), cb(id));
                Op o{ONotify, key};
                tlsNotify = &o;
                size_t ret = router->notify(build(key));
                tlsNotify = nullptr;
                if (ret != 1 || o.cbs.size() != 1 || o.cbs[0].obs != id) report("writer " + std::to_string(w) + ": notify of its own key " + patStr(key) + " returned " + std::to_string(ret) + " and reached " + std::to_string(o.cbs.size()) + " observer(s)");
                if (!router->exists(build(key))) report("writer: exists(" + patStr(key) + ") false while subscribed");
                sub->unsubscribe();
                if (key.size() == 3 && r.chance(150)) {
                    // a handle that went stale: its observer invalidated itself and the delivery purged it, the key is
                    // still stored. unsubscribe() on it is rejected with an exception, and the router must go on working
                    // (nobody else ever delivers to a three-level key below this writer's own first level)
                    // (a second, ordinary subscription keeps the key and its Subject from being shrunk away by another
                    // writer's wildcard shrink in the meantime: the stale handle still points at that Subject)
                    int calls = 0, keepCalls = 0;
                    USubscription keep = router->subscribe(build(key), [&keepCalls]() { ++keepCalls; });
                    USubscription once = router->subscribe(build(key), [&calls](tulz::Observer<>::SelfView self) { ++calls; self->invalidate(); });
                    size_t r1 = router->notify(build(key)), r2 = router->notify(build(key));
                    bool valid = once->isValid(), rejected = false;
                    try { once->unsubscribe(); } catch (...) { rejected = true; }   // (the kind of exception is not part of any statement)
                    if (calls != 1 || keepCalls != 2 || r1 != 1 || r2 != 1 || valid || !rejected)
                        report("self-invalidating observer at " + patStr(key) + ": called " + std::to_string(calls) + " time(s) in two notifications, its neighbour " + std::to_string(keepCalls) +
                               " time(s) (returned " + std::to_string(r1) + " and " + std::to_string(r2) + "), handle valid afterwards: " + std::to_string(valid) +
                               ", unsubscribe() of the stale handle rejected: " + std::to_string(rejected));
                    keep->unsubscribe();
                    stale.fetch_add(1, std::memory_order_relaxed);
                }
                unsigned q = (unsigned) r.below(4);
                if (q == 0) router->shrink(build({w, -1, -1}));
                else if (q == 1) router->shrink(build({-1, -1, -1}));
                else if (q == 2) router->shrink(build(key));
                ops.fetch_add(5, std::memory_order_relaxed);
            }
        });
    for (int rd = 0; rd < readers; ++rd)
        th.emplace_back([&, seed = rng.next()] {
            rt::Rng r(seed);
            while (!go.load(std::memory_order_acquire)) sched_yield();
            for (int k = 0; k < iters * 2 && !bad.load(std::memory_order_relaxed); ++k) {
                unsigned q = (unsigned) r.below(5);
                if (r.chance(8)) {
                    bool caught = false;
                    tlsThrow = true;
                    try { router->notify(build(E)); } catch (const Boom &) { caught = true; }
                    tlsThrow = false;
                    if (!caught) report("an exception thrown by an observer did not reach the caller of notify()");
                    thrown.fetch_add(1, std::memory_order_relaxed);
                    continue;
                }
                if (q == 0) { if (!router->exists(build(P))) report("exists(/f/a) false although its subscription is never removed"); }
                else if (q == 1) { if (!router->exists(build({5})) || !router->exists(build({-1, 0}))) report("exists(/f) or exists(/*/a) false although /f/a is stored"); }
                else if (q == 2) { size_t dp = router->depth(); if (dp < 3 || dp > 4) report("depth() = " + std::to_string(dp) + " with /f/a stored and keys of at most 3 levels"); }
                else {
                    std::vector<int> pat = q == 3 ? P : std::vector<int>{-1, -1};
                    Op o{ONotify, pat};
                    o.cbs.reserve(8);
                    tlsNotify = &o;
                    size_t ret = router->notify(build(pat));
                    tlsNotify = nullptr;
                    int mine = 0;
                    for (auto &x : o.cbs) if (x.obs == 0) ++mine;
                    if (mine != 1 || ret < 1 || (q == 3 && (ret != 1 || o.cbs.size() != 1)))
                        report("notify " + patStr(pat) + " returned " + std::to_string(ret) + " and reached the persistent observer " + std::to_string(mine) + " time(s) (" + std::to_string(o.cbs.size()) + " callbacks)");
                }
                ops.fetch_add(1, std::memory_order_relaxed);
            }
        });
    go.store(1, std::memory_order_release);
    for (auto &x : th) x.join();
    spy::disableDelays();
    C.fastCases++;
    C.fastOps += ops.load();
    C.fastThrows += thrown.load();
    C.fastStale += stale.load();
    if (bad.load()) fail("wrong-result-under-concurrency", "fast-churn", firstBad + " (" + std::to_string(bad.load()) + " wrong results)");
    else {
        rt::Hash h;
        h.add(c); h.add((uint64_t) writers); h.add((uint64_t) readers);
        C.fps.push_back(h.get());
        ++C.nontrivialCases;
    }
    ++C.histories;
    if (!gCaseFailed) { persistent->unsubscribe(); thrower->unsubscribe(); delete router; }
}


// ------------------------------------------------------------------ a crowd of deliveries
// More than 255 deliveries are in progress at the same time (every notify has reached its callback and stays there),
// then a subscribe, an unsubscribe or a shrink arrives, and the deliveries end one after the other: the write must
// not take effect before the last of them is over ("no subscribe, unsubscribe or shrink takes effect while a
// delivery is in progress" - however many there are).
void runCrowdCase(uint64_t c, rt::Rng rng) {
    int n = (int) rng.range(257, 330);
    unsigned what = (unsigned) rng.below(3);
    static const char *names[] = {"subscribe", "unsubscribe", "shrink"};
    char desc[160];
    snprintf(desc, sizeof desc, "crowd case %" PRIu64 ": %d simultaneous deliveries, then %s", c, n, names[what]);
    gDesc = desc;
    rt::crumb("%s", desc);
    auto *router = new ConcurrentSubjectRouter();
    spy::unwatchAll();
    spy::watch(router, sizeof(ConcurrentSubjectRouter));
    spy::Delays d;
    if (rng.chance(500)) { d.afterWake = 150; d.afterUnlock = 50; d.maxUs = 50; d.spurious = 50; }
    spy::configure(d, rt::mix(rt::st().seed, c));
    std::atomic<int> inside{0}, maxInside{0}, leaveUpTo{0}, ticket{0};
    const std::vector<int> K = {0, 1};
    USubscription crowdSub = router->subscribe(build(K), [&]() {
        int my = ticket.fetch_add(1);
        int now = inside.fetch_add(1) + 1;
        int m = maxInside.load();
        while (now > m && !maxInside.compare_exchange_weak(m, now)) {}
        while (leaveUpTo.load(std::memory_order_acquire) <= my) usleep(100);
        inside.fetch_sub(1);
    });
    USubscription victim = router->subscribe(build({2}), []() {});
    std::vector<std::thread> th;
    for (int i = 0; i < n; ++i) th.emplace_back([&] { router->notify(build(K)); });
    while (inside.load() < n) usleep(200);          // (a delivery that never starts ends in the quiescence verdict)
    std::atomic<int> stillInside{-1};
    std::thread writer([&] {
        if (what == 0) { USubscription s2 = router->subscribe(build({3, 0}), []() {}); stillInside.store(inside.load()); s2->unsubscribe(); }
        else if (what == 1) { victim->unsubscribe(); stillInside.store(inside.load()); }
        else { router->shrink(build({-1, -1})); stillInside.store(inside.load()); }
    });
    usleep((useconds_t) rng.range(200, 3000));
    int step = (int) rng.range(1, 60);
    for (int up = 0; up < n; up += step) { leaveUpTo.store(std::min(n, up + step), std::memory_order_release); usleep((useconds_t) rng.below(300)); }
    leaveUpTo.store(n, std::memory_order_release);
    writer.join();
    for (auto &x : th) x.join();
    spy::disableDelays();
    if (stillInside.load() != 0)
        fail("write-during-delivery", "crowd", std::string(names[what]) + "() returned while " + std::to_string(stillInside.load()) + " of " + std::to_string(n) + " deliveries were still in progress");
    C.crowdCases++;
    C.maxSimultaneousDeliveries = std::max<uint64_t>(C.maxSimultaneousDeliveries, (uint64_t) maxInside.load());
    ++C.histories;
    if (!gCaseFailed) {
        rt::Hash h;
        h.add(c); h.add((uint64_t) n); h.add(what);
        C.fps.push_back(h.get());
        ++C.nontrivialCases;
        crowdSub->unsubscribe();
        if (what != 1) victim->unsubscribe();
        delete router;
    }
}


// ------------------------------------------------------------------ two routers, one forwarding into the other
// An observer of router `front` forwards the event to router `back` (it never calls back into its own router), while
// other threads subscribe, unsubscribe and shrink on `back` and notify it directly. Whatever a router keeps per thread
// for its own deliveries must not leak into the other one: a write on `back` that is called and returns entirely within
// one delivery of `back` took effect while that delivery was in progress.
void runForwardCase(uint64_t c, rt::Rng rng) {
    int notifiers = (int) rng.range(2, 4), rounds = (int) rng.range(15, 40);
    unsigned dwell = (unsigned) rng.range(100, 400);
    char desc[200];
    snprintf(desc, sizeof desc, "forwarding case %" PRIu64 ": %d threads notify front->back (%d rounds, callback on back dwells %u us), one thread writes to back", c, notifiers, rounds, dwell);
    gDesc = desc;
    rt::crumb("%s", desc);
    auto *front = new ConcurrentSubjectRouter();
    auto *back = new ConcurrentSubjectRouter();
    spy::unwatchAll();
    spy::watch(front, sizeof(ConcurrentSubjectRouter));
    spy::watch(back, sizeof(ConcurrentSubjectRouter));
    spy::Delays d;
    if (rng.chance(500)) { d.afterWake = 150; d.afterUnlock = 50; d.maxUs = 40; d.spurious = 50; }
    spy::configure(d, rt::mix(rt::st().seed, c));
    struct Iv { uint64_t a, b; };
    std::mutex ivM;
    std::vector<Iv> deliveries, writes;
    const std::vector<int> KB = {1, 0}, KF = {0};
    USubscription sb = back->subscribe(build(KB), [&]() {
        uint64_t a = spy::stamp();
        usleep(dwell);
        uint64_t b = spy::stamp();
        std::lock_guard l{ivM};
        deliveries.push_back({a, b});
    });
    std::atomic<uint64_t> forwarded{0};
    USubscription sf = front->subscribe(build(KF), [&]() { back->notify(build(KB)); forwarded.fetch_add(1, std::memory_order_relaxed); });
    std::atomic<int> go{0}, done{0};
    std::vector<std::thread> th;
    for (int t = 0; t < notifiers; ++t)
        th.emplace_back([&, direct = t == 0 && rng.chance(500)] {
            while (!go.load(std::memory_order_acquire)) sched_yield();
            for (int k = 0; k < rounds; ++k) { if (direct && (k & 3) == 3) back->notify(build(KB)); else front->notify(build(KF)); }
            done.fetch_add(1);
        });
    std::thread writer([&, seed = rng.next()] {
        rt::Rng r(seed);
        while (!go.load(std::memory_order_acquire)) sched_yield();
        std::vector<Iv> mine;
        while (done.load() < notifiers) {
            uint64_t a = spy::stamp();
            USubscription s2 = back->subscribe(build({2, (int) r.below(3)}), []() {});
            uint64_t b = spy::stamp();
            mine.push_back({a, b});
            a = spy::stamp(); s2->unsubscribe(); b = spy::stamp();
            mine.push_back({a, b});
            a = spy::stamp(); back->shrink(build({-1, -1})); b = spy::stamp();
            mine.push_back({a, b});
            usleep((useconds_t) r.below(120));
        }
        std::lock_guard l{ivM};
        writes = std::move(mine);
    });
    go.store(1, std::memory_order_release);
    for (auto &x : th) x.join();
    writer.join();
    spy::disableDelays();
    uint64_t inside = 0;
    for (auto &w : writes)
        for (auto &dl : deliveries)
            if (dl.a < w.a && w.b < dl.b) ++inside;
    if (inside) fail("write-during-delivery", "forward", std::to_string(inside) + " subscribe/unsubscribe/shrink call(s) on the second router began and returned within one of its deliveries (" + std::to_string(deliveries.size()) + " deliveries, " + std::to_string(writes.size()) + " writes)");
    C.forwardCases++;
    C.forwardedDeliveries += forwarded.load();
    C.forwardWritesJudged += writes.size();
    ++C.histories;
    if (!gCaseFailed) {
        rt::Hash h;
        h.add(c); h.add((uint64_t) notifiers); h.add((uint64_t) rounds);
        C.fps.push_back(h.get());
        ++C.nontrivialCases;
        sf->unsubscribe(); sb->unsubscribe();
        delete front; delete back;
    }
}

void onDeadlock(const std::string &desc) {
    rt::violation("C11", "quiescent-deadlock", "router", gDesc + ": every thread is blocked inside the router and nothing can wake it: " + desc);
}

} // namespace

int main(int argc, char **argv) {
    rt::init(argc, argv);
    spy::self()->role.store(1000);
    spy::startMonitor(onDeadlock, (unsigned) rt::optInt("watchdog", 300));
    for (uint64_t c = rt::st().from; c < rt::st().from + rt::st().count; ++c) {
        rt::setCase(c);
        gCaseFailed = false;
        if (rt::optStr("mode", "stress") == "lin") runLinCase(c, rt::Rng(rt::mix(rt::st().seed, c)));
        else if (rt::optStr("mode", "stress") == "fast") runFastCase(c, rt::Rng(rt::mix(rt::st().seed, c)));
        else if (rt::optStr("mode", "stress") == "crowd") runCrowdCase(c, rt::Rng(rt::mix(rt::st().seed, c)));
        else if (rt::optStr("mode", "stress") == "forward") runForwardCase(c, rt::Rng(rt::mix(rt::st().seed, c)));
        else runCase(c, rt::Rng(rt::mix(rt::st().seed, c)));
        spy::recycle();
    }
    spy::stopMonitor();
    rt::dumpFingerprints(C.fps);
    auto &k = spy::counters();
    rt::finish(rt::Json().kv("engine", "h_crouter").kv("histories", C.histories).kv("ops", C.ops).kv("notifies", C.notifies).kv("notifiesWithCallbacks", C.notifiesWithCallbacks)
                   .kv("callbacks", C.callbacks).kv("subscribes", C.subscribes).kv("unsubscribes", C.unsubscribes).kv("shrinks", C.shrinks).kv("existsCalls", C.existsCalls)
                   .kv("depthCalls", C.depthCalls).kv("writesOverlappingNotify", C.writesOverlappingNotify).kv("snapshotsJudged", C.snapshotsJudged)
                   .kv("snapshotsWithConcurrentWrite", C.snapshotsWithConcurrentWrite).kv("missedObserversJudged", C.missedJudged).kv("maxThreads", C.maxThreads)
                   .kv("fastChurnCases", C.fastCases).kv("fastChurnOperations", C.fastOps).kv("deliveriesEndedByException", C.fastThrows).kv("staleHandleUnsubscribesRejected", C.fastStale).kv("forwardingCases", C.forwardCases).kv("forwardedDeliveries", C.forwardedDeliveries).kv("writesJudgedAgainstForwardedDeliveries", C.forwardWritesJudged).kv("crowdCases", C.crowdCases).kv("maxSimultaneousDeliveries", C.maxSimultaneousDeliveries).kv("linHistories", C.linHistories).kv("linOperations", C.linOps).kv("linSearchNodes", C.linNodes).kv("linInconclusive", C.linInconclusive).kv("linHistoriesWithOverlap", C.linWithOverlap).kv("nontrivialCases", C.nontrivialCases).kv("delaysInjected", k.afterWake.load() + k.condEntry.load() + k.beforeLock.load() + k.afterUnlock.load() + k.beforeNotify.load())
                   .kv("lockParks", k.watchedCondWaits.load()).raw("samples", rt::jsonArray(C.samples, false)));
    return 0;
}
