// Engine for C20: tulz::Thread runs its callable exactly once on a new thread,
// on a callable object that is still alive however late the thread is
// scheduled; isFinished()/join() report completion only after the callable
// returned; a Runnable is run once and then destroyed.
//
// Monitors: canaries inside the callable objects (poisoned by a volatile store
// in the destructor), clobbering of the starter's dead stack frames while the
// new thread is still delayed in the interposer's trampoline, invocation
// counters, identity of lvalue arguments, completion marks. In the ASan build
// the same defect shows as stack-use-after-scope / -return.
#include "../rt/rt.h"
#if !defined(__SANITIZE_THREAD__)
#include "../rt/syncspy.h"
#define HAVE_SPY 1
#else
#define HAVE_SPY 0
#endif

#include <tulz/threading/Runnable.h>
#include <tulz/threading/Thread.h>

#include <atomic>
#include <system_error>
#include <sched.h>
#include <sys/syscall.h>
#include <unistd.h>

using tulz::Thread;

namespace {

constexpr uint64_t kLive = 0x11ce5ca11ab1e000ULL, kDead = 0xdeadca11ab1edeadULL;

struct Cover {
    uint64_t reusedThreadObjects = 0, maxStartsOfOneObject = 0, burstCases = 0, veryLateStarts = 0;
    uint64_t bodyDoneBeforeStartReturned = 0, creationFailuresInjected = 0, detached = 0;
    uint64_t starts = 0, lateStarts = 0, polledFinishes = 0, runnables = 0, canaryChecks = 0, argChecks = 0, copiesMade = 0, nontrivialCases = 0;
    std::map<std::string, uint64_t> kinds;
    std::vector<uint64_t> fps;
    std::vector<std::string> samples;
} C;

std::string gDesc;
void fail(const char *rule, const char *site, const std::string &d) { rt::violation("C20", rule, site, d + " | case: " + gDesc); }

std::atomic<uint64_t> gStamp{0};
uint64_t stampNow() {
#if HAVE_SPY
    return spy::stamp();
#else
    return gStamp.fetch_add(1) + 1;
#endif
}

// per start, shared between starter and callable
struct Shared {
    std::atomic<int> invocations{0};
    std::atomic<int> done{0};              // set as the last action of the callable
    std::atomic<uint64_t> bodyStamp{0};
    std::atomic<int> bodyTid{0};
    std::atomic<int> sawFinishedInside{0};
    std::atomic<int> badCanary{0};
    std::atomic<int> badArgs{0};
    std::atomic<int> copies{0};
    std::atomic<int> runnableDtors{0};
    std::atomic<int> dtorBeforeRunEnd{0};
    Thread *thread = nullptr;
    int *a0 = nullptr;
    std::string *a1 = nullptr;
    long *a2 = nullptr;
    unsigned dwellUs = 0;
    bool runExitBeforeStartReturned = false;
    std::atomic<uint64_t> doneStamp{0};
};

struct Canary {
    volatile uint64_t magic = kLive;
    Canary() = default;
    Canary(const Canary &) : magic(kLive) {}
    ~Canary() { magic = kDead; }
    bool ok() const { return magic == kLive; }
};

void body(Shared *s, const Canary *c, int *x0, std::string *x1, long *x2, int nargs) {
    s->bodyStamp.store(stampNow());
    s->bodyTid.store((int) syscall(SYS_gettid));
    s->invocations.fetch_add(1);
    if (c && !c->ok()) s->badCanary.fetch_add(1);
    if (nargs >= 1 && (x0 != s->a0 || *x0 != 41)) s->badArgs.fetch_add(1);
    if (nargs >= 2 && (x1 != s->a1 || *x1 != "an lvalue std::string argument, long enough for the heap")) s->badArgs.fetch_add(1);
    if (nargs >= 3 && (x2 != s->a2 || *x2 != 4343434343L)) s->badArgs.fetch_add(1);
    if (s->thread && s->thread->isFinished()) s->sawFinishedInside.fetch_add(1);
    if (s->dwellUs) usleep(s->dwellUs);
    if (c && !c->ok()) s->badCanary.fetch_add(1);       // still alive at exit?
    if (s->thread && s->thread->isFinished()) s->sawFinishedInside.fetch_add(1);
    s->doneStamp.store(stampNow());
    s->done.store(1);
}

// callable kinds ---------------------------------------------------------------
Shared *gFnShared = nullptr;   // function pointers cannot capture
void fn0() { body(gFnShared, nullptr, nullptr, nullptr, nullptr, 0); }
void fn1(int &a) { body(gFnShared, nullptr, &a, nullptr, nullptr, 1); }
void fn2(int &a, std::string &b) { body(gFnShared, nullptr, &a, &b, nullptr, 2); }
void fn3(int &a, std::string &b, long &c) { body(gFnShared, nullptr, &a, &b, &c, 3); }

struct Functor {
    Shared *s;
    Canary canary;
    Functor(Shared *s_) : s(s_) {}
    Functor(const Functor &o) : s(o.s), canary(o.canary) { s->copies.fetch_add(1); }
    void operator()() const { body(s, &canary, nullptr, nullptr, nullptr, 0); }
    void operator()(int &a) const { body(s, &canary, &a, nullptr, nullptr, 1); }
    void operator()(int &a, std::string &b) const { body(s, &canary, &a, &b, nullptr, 2); }
    void operator()(int &a, std::string &b, long &c) const { body(s, &canary, &a, &b, &c, 3); }
};

struct BigFunctor : Functor {
    unsigned char pad[256];
    BigFunctor(Shared *s_) : Functor(s_) { for (int i = 0; i < 256; ++i) pad[i] = (unsigned char) (i * 7 + 1); }
    BigFunctor(const BigFunctor &o) : Functor(o) { memcpy(pad, o.pad, 256); }
    bool padOk() const { for (int i = 0; i < 256; ++i) if (pad[i] != (unsigned char) (i * 7 + 1)) return false; return true; }
    template<class... A> void operator()(A &...a) const {
        if (!padOk()) s->badCanary.fetch_add(1);
        Functor::operator()(a...);
        if (!padOk()) s->badCanary.fetch_add(1);
    }
};

struct TestRunnable : tulz::Runnable {
    Shared *s;
    Canary canary;
    std::atomic<int> running{0};
    explicit TestRunnable(Shared *s_) : s(s_) {}
    ~TestRunnable() override {
        if (running.load() || !s->done.load()) s->dtorBeforeRunEnd.fetch_add(1);
        s->runnableDtors.fetch_add(1);
    }
    void run() override {
        running.store(1);
        body(s, &canary, nullptr, nullptr, nullptr, 0);
        running.store(0);
    }
};

// overwrites the stack area that the frames of start() occupied
__attribute__((noinline)) void clobberStack(unsigned char pattern) {
    volatile unsigned char buf[16384];
    for (size_t i = 0; i < sizeof buf; ++i) buf[i] = pattern;
    __asm__ volatile("" ::: "memory");
}

template<class Callable, class... A>
__attribute__((noinline)) void startIt(Thread &t, Callable c, bool viaCtor, Thread *&out, A &...args) {
    if (viaCtor) { out = new Thread(c, args...); }
    else { t.start(c, args...); out = &t; }
}

void runCase(uint64_t c, rt::Rng rng) {
    Shared sh;
    int a0 = 41;
    std::string a1 = "an lvalue std::string argument, long enough for the heap";
    long a2 = 4343434343L;
    sh.a0 = &a0;
    sh.a1 = &a1;
    sh.a2 = &a2;
    sh.dwellUs = rng.chance(400) ? (unsigned) rng.below(300) : 0;
    int kind = (int) rng.below(5);
    int nargs = (int) rng.below(4);
    bool viaCtor = rng.chance(300) && kind != 4;
    bool poll = rng.chance(600);
    bool clobber = !rng.chance(150);
    unsigned startDelay = rng.chance(750) ? (unsigned) rng.below(5000) : 0;
    // "no matter how late that thread is scheduled": one case per job may be told to hold the new thread up for seconds
    // (a hand-over that gives up after a bounded wait only shows beyond its bound)
    bool veryLate = rt::optInt("lateus", 0) > 0 && c == rt::st().from;
    if (veryLate) { startDelay = (unsigned) rt::optInt("lateus", 0); ++C.veryLateStarts; clobber = true; }
    bool delayCreator = startDelay && rng.chance(350) && !(rt::optInt("lateus", 0) > 0 && c == rt::st().from);   // hold up the starter instead: the new thread runs ahead of it
    static const char *kn[] = {"function-pointer", "small-closure", "large-functor(256B)", "copyable-functor", "Runnable"};
    char d[200];
    snprintf(d, sizeof d, "kind=%s args=%d via=%s %s<=%uus dwell=%uus poll=%d", kn[kind], kind == 4 ? 0 : nargs, viaCtor ? "constructor" : "start()", delayCreator ? "creatorDelay" : "startDelay", startDelay, sh.dwellUs, (int) poll);
    gDesc = d;
    rt::crumb("%s", d);
    ++C.kinds[kn[kind]];
#if HAVE_SPY
    spy::Delays dl;
    dl.threadStart = startDelay && !delayCreator ? 1000 : 0;
    dl.afterCreate = delayCreator ? 1000 : 0;
    dl.threadStartMaxUs = startDelay;
    spy::configure(dl, rt::mix(rt::st().seed, c));
#endif
    // fault injection (3% of the cases): the thread cannot be created. start() must then report failure by
    // throwing (std::thread does), not return as if a thread had run.
    bool failCreate = HAVE_SPY && rng.chance(30) && !veryLate;
    // rarely used path (4%): the owner detaches through std_thread() and still calls join()
    bool detach = !failCreate && !viaCtor && rng.chance(40);
    int starterTid = (int) syscall(SYS_gettid);
    Thread local;
    Thread *t = nullptr;
    sh.thread = nullptr;
    gFnShared = &sh;
    Thread *&tr = t;
    // the Thread object must be known to the body before it can run: for start() it is `local`
    if (!viaCtor) sh.thread = &local;
    TestRunnable *rawRunnable = nullptr;
    bool threw = false;
#if HAVE_SPY
    if (failCreate) spy::failNextCreate();
#endif
    try {
    switch (kind) {
        case 0:
            if (nargs == 0) startIt(local, &fn0, viaCtor, tr);
            else if (nargs == 1) startIt(local, &fn1, viaCtor, tr, a0);
            else if (nargs == 2) startIt(local, &fn2, viaCtor, tr, a0, a1);
            else startIt(local, &fn3, viaCtor, tr, a0, a1, a2);
            break;
        case 1: {
            Shared *s = &sh;
            Canary can;
            nargs = std::min(nargs, 1);
            if (nargs == 0) startIt(local, [s, can]() { body(s, &can, nullptr, nullptr, nullptr, 0); }, viaCtor, tr);
            else startIt(local, [s, can](int &x) { body(s, &can, &x, nullptr, nullptr, 1); }, viaCtor, tr, a0);
            break;
        }
        case 2: {
            BigFunctor f(&sh);
            if (nargs == 0) startIt(local, f, viaCtor, tr);
            else if (nargs == 1) startIt(local, f, viaCtor, tr, a0);
            else if (nargs == 2) startIt(local, f, viaCtor, tr, a0, a1);
            else startIt(local, f, viaCtor, tr, a0, a1, a2);
            break;
        }
        case 3: {
            Functor f(&sh);
            if (nargs == 0) startIt(local, f, viaCtor, tr);
            else if (nargs == 1) startIt(local, f, viaCtor, tr, a0);
            else if (nargs == 2) startIt(local, f, viaCtor, tr, a0, a1);
            else startIt(local, f, viaCtor, tr, a0, a1, a2);
            break;
        }
        default:
            rawRunnable = new TestRunnable(&sh);
            local.start(rawRunnable);
            t = &local;
            ++C.runnables;
            break;
    }
    } catch (...) { threw = true; }   // (the kind of exception is not part of the statement)
    if (failCreate) {
        ++C.creationFailuresInjected;
        if (!threw) {
            // no thread exists: nothing can ever run the callable
            usleep(2000);
            fail("started-without-thread", kn[kind], std::string("the thread could not be created, yet start() returned normally (callable invoked ") + std::to_string(sh.invocations.load()) + " times, isFinished() = " + (t && t->isFinished() ? "true" : "false") + ")");
        } else if (sh.invocations.load() != 0) fail("invocation-count", kn[kind], "callable invoked although thread creation failed");
        if (rawRunnable && sh.runnableDtors.load() == 0) delete rawRunnable;   // ownership after a failed start is unspecified: do not leak it ourselves
        if (viaCtor && t) delete t;
#if HAVE_SPY
        spy::disableDelays();
        spy::recycle();
#endif
        return;
    }
    if (threw) { fail("start-threw", kn[kind], "start() threw although thread creation was not made to fail"); return; }
    uint64_t startReturned = stampNow();
    sh.runExitBeforeStartReturned = sh.doneStamp.load() != 0 && sh.doneStamp.load() < startReturned;
    // the starter keeps using its stack: everything start() left behind is overwritten
    if (clobber) { clobberStack(0xdd); clobberStack(0x5a); }
    ++C.starts;

    if (poll) {
        // a poller that sees isFinished() must then see the callable's last action
        // (bounded by logical steps once the callable is known to have returned: a flag that never
        // turns true is reported by the check after join(), not by a watchdog)
        for (unsigned grace = 0; grace < 20000;) {
            if (t->isFinished()) {
                if (!sh.done.load()) fail("finished-before-return", "isFinished", "isFinished() was true before the callable had returned");
                ++C.polledFinishes;
                break;
            }
            if (sh.done.load()) { ++grace; sched_yield(); }
            else if (rng.chance(300)) sched_yield();
        }
    }
    if (detach) {
        // after detaching through the accessor, join() must not pretend that the callable is done
        ++C.detached;
        t->std_thread().detach();
        bool joinThrew = false;
        try { t->join(); } catch (...) { joinThrew = true; }
        if (!joinThrew && !sh.done.load()) fail("join-before-return", "join-after-detach", "join() on a detached Thread returned normally while the callable was still running");
        // the detached body still writes into `local` and `sh`: wait for it (bounded by logical steps once the callable returned)
        for (unsigned grace = 0; !t->isFinished() && grace < 20000;) { if (sh.done.load()) ++grace; usleep(50); }
        if (!t->isFinished()) fail("not-finished-after-join", "isFinished", "isFinished() never became true after the callable of a detached Thread had returned");
    } else {
    if (!t->isJoinable()) fail("not-joinable", "join", "a started Thread is not joinable");
    t->join();
    }
    if (!sh.done.load()) fail("join-before-return", "join", "join() returned before the callable had returned");
    if (!t->isFinished() || t->isRunning()) fail("not-finished-after-join", "isFinished", "isFinished() is false / isRunning() is true after join() returned: completion is never reported");
    int inv = sh.invocations.load();
    if (inv != 1) fail("invocation-count", kn[kind], "the callable was invoked " + std::to_string(inv) + " times");
    if (sh.bodyTid.load() == starterTid) fail("not-a-new-thread", kn[kind], "the callable ran on the starting thread");
    if (sh.badCanary.load()) fail("callable-not-alive", kn[kind], "the callable object the new thread used was destroyed or overwritten (canary dead " + std::to_string(sh.badCanary.load()) + "x)");
    if (sh.badArgs.load()) fail("wrong-arguments", kn[kind], "lvalue arguments did not arrive by identity with their values");
    if (sh.sawFinishedInside.load()) fail("finished-before-return", "isFinished", "isFinished() was true while the callable was still running");
    if (a0 != 41 || a1 != "an lvalue std::string argument, long enough for the heap" || a2 != 4343434343L) fail("wrong-arguments", kn[kind], "caller's argument objects changed");
    if (kind == 4) {
        if (sh.runnableDtors.load() != 1) fail("runnable-destruction", "Runnable", "the Runnable was destroyed " + std::to_string(sh.runnableDtors.load()) + " times after join()");
        if (sh.dtorBeforeRunEnd.load()) fail("runnable-destruction", "Runnable", "the Runnable was destroyed before run() had returned");
    }
    C.canaryChecks += 2;
    C.argChecks += (uint64_t) nargs;
    C.copiesMade += (uint64_t) sh.copies.load();
    bool late = sh.bodyStamp.load() > startReturned;
    if (late) { ++C.lateStarts; ++C.nontrivialCases; }
    if (delayCreator && sh.done.load() && sh.runExitBeforeStartReturned) ++C.bodyDoneBeforeStartReturned;
    rt::Hash h;
    h.add((uint64_t) kind); h.add((uint64_t) nargs); h.add(viaCtor); h.add(late); h.add(poll); h.add(sh.dwellUs > 0); h.add(startDelay / 500);
    if (late) C.fps.push_back(h.get());
    if (C.samples.size() < 5 && c % 9 == 0) C.samples.push_back(rt::Json().kv("case", c).kv("what", d).kv("bodyStartedAfterStartReturned", late).str());
    if (viaCtor) delete t;
#if HAVE_SPY
    spy::disableDelays();
    spy::recycle();
#endif
}


// One Thread object started and joined again and again (up to 520 times: whatever the object counts per start must not
// run out). The statement speaks of "a Thread started with a callable"; for a restarted object this harness judges only
// what holds for every single start: the callable of that start ran exactly once, on another thread, join() returned
// after it, and completion is reported after join(). (isFinished() BEFORE join is not judged here: the library never
// resets its flag, a restarted object reports the previous run.)
std::atomic<int> gReuseFnCalls{0};
std::atomic<int> gReuseFnTid{0};
void reuseFn() { gReuseFnTid.store((int) syscall(SYS_gettid)); gReuseFnCalls.fetch_add(1); }
struct ReuseRunnable : tulz::Runnable {
    std::atomic<int> *calls, *dtors, *tid;
    ReuseRunnable(std::atomic<int> *c, std::atomic<int> *d, std::atomic<int> *t) : calls(c), dtors(d), tid(t) {}
    ~ReuseRunnable() override { dtors->fetch_add(1); }
    void run() override { tid->store((int) syscall(SYS_gettid)); calls->fetch_add(1); }
};
void runReuseCase(uint64_t c, rt::Rng rng) {
    static const int lens[] = {257, 300, 520};
    int n = rng.chance(250) ? lens[rng.below(3)] : (int) rng.range(2, 24);
    char d[160];
    snprintf(d, sizeof d, "one Thread object started and joined %d times", n);
    gDesc = d;
    rt::crumb("%s", d);
#if HAVE_SPY
    spy::Delays dl;
    if (rng.chance(400)) { dl.threadStart = 300; dl.threadStartMaxUs = 200; }
    spy::configure(dl, rt::mix(rt::st().seed, c));
#endif
    int starterTid = (int) syscall(SYS_gettid);
    Thread t;
    std::atomic<int> calls{0}, dtors{0}, tid{0};
    int fnBefore = gReuseFnCalls.load();
    int expectFn = 0, expectCalls = 0, expectDtors = 0;
    bool bad = false;
    for (int k = 0; k < n && !bad; ++k) {
        unsigned kind = (unsigned) rng.below(3);
        int ranOn = 0;
        if (kind == 0) { t.start(&reuseFn); ++expectFn; }
        else if (kind == 1) { t.start([&calls, &tid]() { tid.store((int) syscall(SYS_gettid)); calls.fetch_add(1); }); ++expectCalls; }
        else { t.start(new ReuseRunnable(&calls, &dtors, &tid)); ++expectCalls; ++expectDtors; }
        ++C.starts;
        if (!t.isJoinable()) { fail("not-joinable", "restart", std::string(d) + ": not joinable after start #" + std::to_string(k + 1)); bad = true; break; }
        t.join();
        ranOn = kind == 0 ? gReuseFnTid.load() : tid.load();
        if (gReuseFnCalls.load() - fnBefore != expectFn || calls.load() != expectCalls) { fail("invocation-count", "restart", std::string(d) + ": after start #" + std::to_string(k + 1) + " and join() the callables ran " + std::to_string(gReuseFnCalls.load() - fnBefore + calls.load()) + " times in total, expected " + std::to_string(expectFn + expectCalls)); bad = true; }
        else if (dtors.load() != expectDtors) { fail("runnable-destruction", "restart", std::string(d) + ": " + std::to_string(dtors.load()) + " Runnables destroyed after start #" + std::to_string(k + 1) + " and join(), expected " + std::to_string(expectDtors)); bad = true; }
        else if (ranOn == starterTid) { fail("not-a-new-thread", "restart", std::string(d) + ": start #" + std::to_string(k + 1) + " ran its callable on the starting thread"); bad = true; }
        else if (!t.isFinished() || t.isRunning()) { fail("not-finished-after-join", "restart", std::string(d) + ": after start #" + std::to_string(k + 1) + " and join(), isFinished() is false / isRunning() is true: completion is never reported"); bad = true; }
    }
    if (rng.chance(300)) { Thread::sleep(1); Thread::sleep(std::chrono::microseconds(50)); }
    ++C.reusedThreadObjects;
    C.maxStartsOfOneObject = std::max<uint64_t>(C.maxStartsOfOneObject, (uint64_t) n);
    if (!bad) { rt::Hash h; h.add(0x7e05eULL); h.add((uint64_t) n); C.fps.push_back(h.get()); ++C.nontrivialCases; }
#if HAVE_SPY
    spy::disableDelays();
    spy::recycle();
#endif
}


// Several Thread objects started back to back with callables of the SAME type but different state (one lambda expression
// with different captures, function pointers of one signature): each runs its own callable exactly once.
std::atomic<int> gBurstFnHits[8];
void burstFn0() { gBurstFnHits[0].fetch_add(1); }
void burstFn1() { gBurstFnHits[1].fetch_add(1); }
void burstFn2() { gBurstFnHits[2].fetch_add(1); }
void burstFn3() { gBurstFnHits[3].fetch_add(1); }
void runBurstCase(uint64_t c, rt::Rng rng) {
    int n = (int) rng.range(2, 4);
    bool fnPtr = rng.chance(400);
    char d[160];
    snprintf(d, sizeof d, "%d Thread objects started back to back with %s", n, fnPtr ? "function pointers of one signature" : "one lambda expression and different captures");
    gDesc = d;
    rt::crumb("%s", d);
#if HAVE_SPY
    spy::Delays dl;
    dl.threadStart = 700; dl.threadStartMaxUs = (unsigned) rng.range(100, 3000);
    spy::configure(dl, rt::mix(rt::st().seed, c));
#endif
    std::atomic<int> hits[4];
    for (auto &h : hits) h.store(0);
    for (auto &h : gBurstFnHits) h.store(0);
    void (*fns[4])() = {burstFn0, burstFn1, burstFn2, burstFn3};
    {
        Thread t[4];
        for (int i = 0; i < n; ++i) {
            if (fnPtr) t[i].start(fns[i]);
            else { std::atomic<int> *mine = &hits[i]; int tag = i; t[i].start([mine, tag]() { mine->fetch_add(1 + 100 * tag - 100 * tag); }); }
            ++C.starts;
        }
        for (int i = 0; i < n; ++i) t[i].join();
    }
    for (int i = 0; i < n; ++i) {
        int got = fnPtr ? gBurstFnHits[i].load() : hits[i].load();
        if (got != 1) { fail("invocation-count", "burst", std::string(d) + ": callable #" + std::to_string(i) + " ran " + std::to_string(got) + " time(s)"); break; }
    }
    ++C.burstCases;
#if HAVE_SPY
    spy::disableDelays();
    spy::recycle();
#endif
}

void onDeadlock(const std::string &desc) {
    rt::violation("C20", "quiescent-deadlock", "join", gDesc + ": every thread is blocked and nothing can wake it: " + desc);
}

} // namespace

int main(int argc, char **argv) {
    rt::init(argc, argv);
#if HAVE_SPY
    spy::self()->role.store(1000);
    spy::startMonitor(onDeadlock, (unsigned) rt::optInt("watchdog", 300));
#endif
    for (uint64_t c = rt::st().from; c < rt::st().from + rt::st().count; ++c) {
        rt::setCase(c);
        rt::Rng pick(rt::mix(rt::st().seed, c ^ 0x5eed));
        if (pick.chance((unsigned) rt::optInt("reuse", 15))) { runReuseCase(c, rt::Rng(rt::mix(rt::st().seed, c))); continue; }
        if (pick.chance((unsigned) rt::optInt("burst", 40))) { runBurstCase(c, rt::Rng(rt::mix(rt::st().seed, c))); continue; }
        runCase(c, rt::Rng(rt::mix(rt::st().seed, c)));
    }
#if HAVE_SPY
    spy::stopMonitor();
#endif
    rt::dumpFingerprints(C.fps);
    rt::finish(rt::Json().kv("engine", "h_thread").kv("starts", C.starts).kv("lateStarts", C.lateStarts).kv("bodyDoneBeforeStartReturned", C.bodyDoneBeforeStartReturned).kv("threadCreationFailuresInjected", C.creationFailuresInjected).kv("detachedThenJoined", C.detached).kv("polledFinishes", C.polledFinishes).kv("burstsOfSameTypeCallables", C.burstCases).kv("startsDelayedBySeconds", C.veryLateStarts).kv("reusedThreadObjects", C.reusedThreadObjects).kv("maxStartsOfOneObject", C.maxStartsOfOneObject)
                   .kv("runnables", C.runnables).kv("canaryChecks", C.canaryChecks).kv("argumentIdentityChecks", C.argChecks)
                   .kv("callableCopiesObserved", C.copiesMade).kv("nontrivialCases", C.nontrivialCases)
                   .raw("kinds", rt::jsonCounts(C.kinds)).raw("samples", rt::jsonArray(C.samples, false)));
    return 0;
}
