// Engine for C19: LocaleInfo::get is total, memory-safe and consistent with
// its public tables. Oracle = an independent parse with the documented split
// (language = up to the first '_', country = from there up to the first '.'
// after it; no '_' or a '.' before it = "any other string") and a lookup in
// LocaleInfo::languageInfo / countryInfo.
//
// Cases [0, nLangForms): exhaustive: one language form (every table name and
// every distinct code) x every country (by code and by name) x {"", ".UTF-8",
// ".1252"}. Cases beyond: one hostile or random string each (own process
// slice, so that a sanitizer abort on one class does not mask the others).
#include "../rt/rt.h"

#include <tulz/LocaleInfo.h>

#include <algorithm>
#include <set>
#include <string>

using tulz::LocaleInfo;

namespace {

struct Cover {
    uint64_t calls = 0, validCombos = 0, fallbacks = 0, hostile = 0, random = 0, byCode = 0, byName = 0, longParts = 0, dotFirst = 0, unknownLangKnownCountry = 0;
    std::map<std::string, uint64_t> classes;
    std::vector<uint64_t> fps;
    std::vector<std::string> samples;
} C;

std::set<const void *> gTablePtrs;
std::vector<std::string> gLangForms;   // names, then distinct codes

void fail(const char *rule, const char *site, const std::string &input, const std::string &d) {
    std::string in = input.size() > 120 ? input.substr(0, 120) + "...(" + std::to_string(input.size()) + " bytes)" : input;
    std::string esc;
    rt::jsonEscape(esc, in.data(), in.size());
    rt::violation("C19", rule, site, d + " | input: \"" + esc + "\"");
}

struct Expect {
    bool valid = false;
    std::string code;                    // by code: the code; by name: any code of an entry with that name
    std::vector<std::string> names;      // by code: all names; by name: just that name
    bool byName = false;
    std::set<std::string> codesOfName;
    std::string country, countryCode;
};

Expect oracle(const std::string &s) {
    Expect e;
    size_t us = s.find('_');
    if (us == std::string::npos) return e;
    size_t dot = s.find('.');
    if (dot != std::string::npos && dot < us) return e;
    std::string lang = s.substr(0, us);
    size_t dot2 = s.find('.', us + 1);
    std::string country = s.substr(us + 1, dot2 == std::string::npos ? std::string::npos : dot2 - us - 1);
    for (int i = 0; i < LocaleInfo::languagesCount; ++i)
        if (lang == LocaleInfo::languageInfo[i].code) { e.code = lang; e.names.push_back(LocaleInfo::languageInfo[i].value); }
    if (e.names.empty()) {
        for (int i = 0; i < LocaleInfo::languagesCount; ++i)
            if (lang == LocaleInfo::languageInfo[i].value) { e.byName = true; e.names = {lang}; e.codesOfName.insert(LocaleInfo::languageInfo[i].code); }
    }
    if (e.names.empty()) return e;
    for (int i = 0; i < LocaleInfo::countiesCount; ++i)
        if (country == LocaleInfo::countryInfo[i].code || country == LocaleInfo::countryInfo[i].value) {
            e.country = LocaleInfo::countryInfo[i].value;
            e.countryCode = LocaleInfo::countryInfo[i].code;
            e.valid = true;
            return e;
        }
    return e;
}

bool tablePtr(const void *p) { return gTablePtrs.count(p) != 0; }

void judge(const std::string &s, const char *site) {
    ++C.calls;
    Expect e = oracle(s);
    // materialise the result in pre-filled storage: a field get() never sets keeps the pattern
    alignas(LocaleInfo::Info) unsigned char raw[sizeof(LocaleInfo::Info)];
    memset(raw, 0xA5, sizeof raw);
    auto *r = new (raw) LocaleInfo::Info(LocaleInfo::get(s.c_str()));
    struct Guard { LocaleInfo::Info *p; ~Guard() { p->~Info(); } } guard{r};

    bool fallback = r->error != nullptr;
    const char *ptrs[3] = {r->languageCode, r->country, r->countryCode};
    const char *pn[3] = {"languageCode", "country", "countryCode"};
    for (int i = 0; i < 3; ++i) {
        if (tablePtr(ptrs[i])) continue;
        if (!fallback) {
            char b[96];
            snprintf(b, sizeof b, "%s = %p is not a table entry and error is not set (uninitialised field?)", pn[i], (const void *) ptrs[i]);
            return fail("pointer-not-in-table", site, s, b);
        }
    }
    for (const char *l : r->languages)
        if (!tablePtr(l) && !fallback) return fail("pointer-not-in-table", site, s, "a languages entry is not a table entry");

    if (!e.valid) {
        ++C.fallbacks;
        if (!fallback) return fail("no-fallback", site, s, "not a known language_COUNTRY[.charset] string, but error is not set (returned language '" + std::string(r->languageCode) + "', country '" + std::string(r->country) + "')");
        if (strcmp(r->languageCode, "en") || strcmp(r->countryCode, "GB") || strcmp(r->country, "United Kingdom") || r->languages.size() != 1 || strcmp(r->languages.front(), "English"))
            return fail("wrong-fallback", site, s, "fallback is not English / United Kingdom");
        return;
    }
    ++C.validCombos;
    if (e.byName) ++C.byName; else ++C.byCode;
    if (fallback) return fail("valid-rejected", site, s, "known language and country, but the fallback with error was returned");
    if (r->country != e.country || r->countryCode != e.countryCode)
        return fail("wrong-country", site, s, "country '" + std::string(r->country) + "' / '" + r->countryCode + "', expected '" + e.country + "' / '" + e.countryCode + "'");
    std::vector<std::string> got;
    for (const char *l : r->languages) got.push_back(l);
    std::vector<std::string> gs = got;
    std::sort(gs.begin(), gs.end());
    if (std::adjacent_find(gs.begin(), gs.end()) != gs.end()) return fail("wrong-languages", site, s, "duplicate language name in the result");
    if (!e.byName) {
        std::vector<std::string> want = e.names;
        std::sort(want.begin(), want.end());
        if (r->languageCode != e.code) return fail("wrong-languages", site, s, "languageCode '" + std::string(r->languageCode) + "', expected '" + e.code + "'");
        if (gs != want) return fail("wrong-languages", site, s, "names for code '" + e.code + "': got " + std::to_string(gs.size()) + ", the table has " + std::to_string(want.size()));
    } else {
        if (!e.codesOfName.count(r->languageCode)) return fail("wrong-languages", site, s, "languageCode '" + std::string(r->languageCode) + "' is not a code of language name '" + e.names[0] + "'");
        if (std::find(got.begin(), got.end(), e.names[0]) == got.end()) return fail("wrong-languages", site, s, "result does not list the requested language name");
        for (auto &g : got) {
            bool ok = false;
            for (int i = 0; i < LocaleInfo::languagesCount; ++i)
                if (g == LocaleInfo::languageInfo[i].value && !strcmp(LocaleInfo::languageInfo[i].code, r->languageCode)) ok = true;
            if (!ok) return fail("wrong-languages", site, s, "listed name '" + g + "' does not belong to code '" + r->languageCode + "'");
        }
    }
}

std::string hostile(rt::Rng &rng, std::string &cls) {
    auto lang = [&](bool name) { auto &e = LocaleInfo::languageInfo[rng.below(LocaleInfo::languagesCount)]; return std::string(name ? e.value : e.code); };
    auto ctry = [&](bool name) { auto &e = LocaleInfo::countryInfo[rng.below(LocaleInfo::countiesCount)]; return std::string(name ? e.value : e.code); };
    static const size_t lens[] = {60, 62, 63, 64, 65, 66, 70, 100, 1000, 100000};
    switch (rng.below(16)) {
        case 0: { cls = "long-language-part"; ++C.longParts; return std::string(lens[rng.below(10)], 'a' + (char) rng.below(26)) + "_" + ctry(false); }
        case 1: { cls = "long-country-part"; ++C.longParts; return lang(false) + "_" + std::string(lens[rng.below(10)], 'A' + (char) rng.below(26)) + (rng.chance(500) ? ".UTF-8" : ""); }
        case 2: { cls = "dot-before-underscore"; ++C.dotFirst; return lang(false) + "." + std::string(rng.below(6), 'x') + "_" + ctry(false); }
        case 3: { cls = "dot-before-underscore"; ++C.dotFirst; return "." + lang(rng.chance(500)) + "_" + ctry(false) + ".UTF-8"; }
        case 4: { cls = "unknown-language-known-country"; ++C.unknownLangKnownCountry; return std::string(1 + rng.below(3), 'q') + "x_" + ctry(rng.chance(500)); }
        case 5: { cls = "known-language-unknown-country"; return lang(rng.chance(500)) + "_" + std::string(1 + rng.below(4), 'Q'); }
        case 6: { cls = "several-underscores"; return lang(false) + "_" + ctry(false) + "_" + ctry(false); }
        case 7: { cls = "empty-parts"; static const char *v[] = {"", "_", ".", "_.", "._", "__", "_GB", "en_", "en_.UTF-8", "_GB.UTF-8", "en", "GB", "en.UTF-8", "..", "en__GB"}; return v[rng.below(15)]; }
        case 8: { cls = "case-variant"; std::string s = lang(false) + "_" + ctry(false); for (auto &c : s) if (rng.chance(400)) c = (char) (isupper((unsigned char) c) ? tolower(c) : toupper(c)); return s; }
        case 9: { cls = "prefix-or-suffix-of-valid"; std::string l = lang(true), c = ctry(true); if (rng.chance(500) && l.size() > 1) l.pop_back(); else l += "x"; if (rng.chance(500) && c.size() > 1) c.pop_back(); return l + "_" + c; }
        case 10: { cls = "valid-with-odd-charset"; return lang(rng.chance(500)) + "_" + ctry(rng.chance(500)) + "." + std::string(rng.below(200), '8') + (rng.chance(300) ? "._." : ""); }
        case 11: { cls = "long-both-parts"; ++C.longParts; return std::string(lens[rng.below(8)], 'e') + "_" + std::string(lens[rng.below(8)], 'G') + ".UTF-8"; }
        case 12: { cls = "exactly-63-64"; ++C.longParts; size_t n = 61 + rng.below(5); return std::string(n, 'z') + "_" + std::string(61 + rng.below(5), 'Z'); }
        case 14: {
            // a known form followed by padding of exactly 2^8*k or 2^16*k bytes: a length kept in a narrow integer wraps
            // back to the length of the known form
            cls = "length-wraps";
            ++C.longParts;
            size_t pad = (rng.chance(500) ? 65536 : 256) * (size_t) rng.range(1, 3);
            bool name = rng.chance(500);
            if (rng.chance(500)) return lang(name) + std::string(pad, 'x') + "_" + ctry(rng.chance(500)) + (rng.chance(300) ? ".UTF-8" : "");
            return lang(name) + "_" + ctry(rng.chance(500)) + std::string(pad, 'X') + (rng.chance(300) ? ".UTF-8" : "");
        }
        case 13: {
            // the library echoes unknown locales to stderr: printf conversions in the input must stay text
            cls = "printf-conversions";
            static const char *f[] = {"%s", "%n", "%d", "%x", "%9999$s", "%%", "%s%s%s%s%s%s%s%s", "%.99999f", "%lc"};
            std::string s = rng.chance(500) ? lang(false) + "_" : "";
            int k = (int) rng.range(1, 4);
            for (int i = 0; i < k; ++i) s += f[rng.below(9)];
            if (rng.chance(300)) s += "_GB";
            return s;
        }
        default: {
            cls = "random-bytes";
            ++C.random;
            size_t n = rng.below(200);
            std::string s;
            for (size_t i = 0; i < n; ++i) {
                unsigned r = (unsigned) rng.below(100);
                char c = r < 12 ? '_' : r < 22 ? '.' : r < 60 ? (char) ('a' + rng.below(26)) : r < 80 ? (char) ('A' + rng.below(26)) : (char) (1 + rng.below(255));
                s += c;
            }
            return s;
        }
    }
}

} // namespace

int main(int argc, char **argv) {
    rt::init(argc, argv);
    rt::cpuBudgetPerCase(240);   // single-threaded, deterministic: a case that burns 240 s of CPU time does not terminate
    // The library reports every fallback with fprintf(stderr, ...): point the stdio stream elsewhere,
    // but leave file descriptor 2 alone, the sanitizers write their reports to it.
    if (FILE *nul = fopen("/dev/null", "w")) stderr = nul;
    for (int i = 0; i < LocaleInfo::languagesCount; ++i) { gTablePtrs.insert(LocaleInfo::languageInfo[i].value); gTablePtrs.insert(LocaleInfo::languageInfo[i].code); }
    for (int i = 0; i < LocaleInfo::countiesCount; ++i) { gTablePtrs.insert(LocaleInfo::countryInfo[i].value); gTablePtrs.insert(LocaleInfo::countryInfo[i].code); }
    std::set<std::string> codes;
    for (int i = 0; i < LocaleInfo::languagesCount; ++i) { gLangForms.push_back(LocaleInfo::languageInfo[i].value); codes.insert(LocaleInfo::languageInfo[i].code); }
    for (auto &c : codes) gLangForms.push_back(c);
    uint64_t nForms = gLangForms.size();
    bool exhaustiveDone = false;
    static const char *suffix[] = {"", ".UTF-8", ".1252"};
    for (uint64_t c = rt::st().from; c < rt::st().from + rt::st().count; ++c) {
        rt::setCase(c);
        if (c < nForms) {
            const std::string &lf = gLangForms[c];
            rt::crumb("exhaustive language form %s", lf.c_str());
            for (int k = 0; k < LocaleInfo::countiesCount; ++k)
                for (int byName = 0; byName < 2; ++byName)
                    for (int sfx = 0; sfx < 3; ++sfx) {
                        std::string s = lf + "_" + (byName ? LocaleInfo::countryInfo[k].value : LocaleInfo::countryInfo[k].code) + suffix[sfx];
                        judge(s, "exhaustive");
                    }
            ++C.classes["exhaustive-language-form"];
            if (c == nForms - 1) exhaustiveDone = true;
            if (C.samples.size() < 2) C.samples.push_back(rt::Json().kv("class", "exhaustive").kv("input", lf + "_<every country code and name><'', '.UTF-8', '.1252'>").str());
        } else {
            rt::Rng rng(rt::mix(rt::st().seed, c));
            std::string cls;
            std::string s = hostile(rng, cls);
            ++C.hostile;
            ++C.classes[cls];
            std::string esc;
            rt::jsonEscape(esc, s.data(), std::min<size_t>(s.size(), 80));
            rt::crumb("%s: %s", cls.c_str(), esc.c_str());
            judge(s, cls.c_str());
            rt::Hash h;
            for (char ch : s) h.add((uint64_t) (unsigned char) ch);
            C.fps.push_back(h.get());
            if (C.samples.size() < 7 && c % 5 == 0) C.samples.push_back(rt::Json().kv("class", cls).kv("input", s.substr(0, 90)).kv("bytes", (uint64_t) s.size()).str());
        }
    }
    (void) exhaustiveDone;
    rt::dumpFingerprints(C.fps);
    rt::finish(rt::Json().kv("engine", "h_locale").kv("calls", C.calls).kv("validCombinations", C.validCombos).kv("fallbacks", C.fallbacks)
                   .kv("byCode", C.byCode).kv("byName", C.byName).kv("hostileStrings", C.hostile).kv("randomByteStrings", C.random)
                   .kv("longParts", C.longParts).kv("dotBeforeUnderscore", C.dotFirst).kv("unknownLanguageKnownCountry", C.unknownLangKnownCountry)
                   .kv("languageForms", nForms).kv("countries", (uint64_t) LocaleInfo::countiesCount)
                   .raw("classes", rt::jsonCounts(C.classes)).raw("samples", rt::jsonArray(C.samples, false)));
    return 0;
}
