// Engine for C05 (Subject delivers to exactly the live, unmuted observers, in
// order) and C10 (callbacks may change the Subject during notify).
//
// Online co-simulation: a model of the Subject (ordered entries with
// present/valid/muted flags, a stack of active rounds with their snapshots)
// is advanced by the harness callbacks themselves. Every real invocation
// must be the model's next predicted invocation; when a round returns no
// prediction may be left over. Callback scripts (C10) perform their action on
// the real Subject and on the model together.
#include "../rt/rt.h"

#include <tulz/observer/Subject.h>

#include <memory>
#include <stdexcept>
#include <tuple>

using namespace tulz;

namespace {

struct Payload {
    std::string data;
    int64_t tag = 0;
    Payload() = default;
    explicit Payload(int64_t v) : data("payload-with-a-long-heap-string-" + std::to_string(v)), tag(v) {}
};

// digests of received arguments
inline int64_t dgOne(int x) { return x; }
inline int64_t dgOne(const std::string &s) { return (int64_t) (rt::mix(s.size(), std::hash<std::string>{}(s)) & 0x7fffffffffffLL); }
inline int64_t dgOne(const Payload &p) {
    return p.data == "payload-with-a-long-heap-string-" + std::to_string(p.tag) ? p.tag * 31 + 7 : -999999;   // moved-from shows as damaged
}
template<class... A> int64_t digest(const A &...a) {
    int64_t h = 17;
    ((h = h * 1000003 + dgOne(a)), ...);
    return h;
}
template<class T> T makeVal(int64_t v);
template<> int makeVal<int>(int64_t v) { return (int) v; }
template<> std::string makeVal<std::string>(int64_t v) { return "argument-string-long-enough-for-the-heap-" + std::to_string(v); }
template<> Payload makeVal<Payload>(int64_t v) { return Payload(v); }

// An observer type of its own (not EternalObserver): valid for a fixed number of deliveries. Exercises the virtual
// isValid()/invalidate() interface, Observer::operator=(Func) and lazy removal right after the last delivery.
template<class... Args>
struct CountdownObserver : Observer<Args...> {
    int left;
    explicit CountdownObserver(int n) : left(n) {}
    bool isValid() const override { return left > 0; }
    void invalidate() override { left = 0; }
};

struct Cover {
    uint64_t thrown = 0, countdownObservers = 0, chainedRuns = 0, longLifeRuns = 0, longLifeCycles = 0, burstObservers = 0;
    uint64_t histories = 0, ops = 0, notifies = 0, nestedNotifies = 0, calls = 0, inRoundActions = 0, staleRejected = 0;
    uint64_t selfUnsub = 0, unsubOther = 0, lazyRemovals = 0, handleMoves = 0, nontrivialCases = 0, maxDepth = 0, tokensDestroyed = 0;
    std::map<std::string, uint64_t> opCount, sigCount, actionCount;
    std::vector<uint64_t> fps;
    std::vector<std::string> samples;
} C;

std::string gHist;
const char *gProp = "C05";
bool gCaseFailed = false;

std::string histTail() { return "history: " + (gHist.size() > 1600 ? "..." + gHist.substr(gHist.size() - 1600) : gHist); }
void fail(const char *prop, const char *rule, const char *site, const std::string &d) {
    gCaseFailed = true;
    rt::violation(prop, rule, site, d + " | " + histTail());
}

template<class... Args>
struct Runner {
    using Subj = Subject<Args...>;
    using Sub = Subscription<Args...>;
    using Obs = Observer<Args...>;
    static constexpr bool kRef = (std::is_same_v<Args, int &> || ...);
    static constexpr size_t kN = sizeof...(Args);

    struct Tok {
        Runner *r;
        int id;
        ~Tok() { r->onDestroy(id); }
    };
    struct Entry {
        bool present = false, valid = true, muted = false, destroyed = false, removedInRound = false;
        int countdown = 0;   // > 0: a CountdownObserver that expires after that many deliveries
        Sub handle;
        int calls = 0;
    };
    struct Round {
        std::vector<int> snapshot;
        size_t cursor = 0;
        int64_t v = 0;        // argument seed of this round
        int64_t expect = 0;   // expected digest (by-value / const-ref signatures)
        int callsInRound = 0;
        int refVar = 0;       // the int& argument of this round
        bool aborted = false; // a callback threw: nobody after it is called in this round
    };
    struct Boom {};

    std::unique_ptr<Subj> subj;
    std::unique_ptr<Subj> other;       // a second Subject: source of foreign handles with equal numeric ids
    std::vector<Sub> otherHandles;
    std::vector<std::unique_ptr<Entry>> e;
    std::vector<Round *> rounds;
    rt::Rng rng;
    bool scripts;                      // C10: callbacks act on the Subject
    bool subjectDying = false;
    int64_t nextV = 1;
    rt::Hash hist;
    const char *site = "";
    bool nontrivial = false;
    size_t foreign = 0;                // entries [0, foreign) belong to `other`
    std::vector<Sub> spare;            // moved-from / cleared handles kept for stale-handle probes

    Runner(uint64_t seed, bool scripts_) : subj(new Subj()), other(new Subj()), rng(seed), scripts(scripts_) {}

    void log(const std::string &t) {
        gHist += t;
        gHist += ' ';
        for (char c : t) hist.add((uint64_t) c);
    }
    void note(const char *o) { site = o; ++C.opCount[o]; ++C.ops; }

    // ------------------------------------------------------------------ model of one round
    // Advances the top round over entries that are not called, applying lazy removal, until the
    // next entry that must be called; returns its id or -1 at the end of the snapshot.
    int advance(Round &r) {
        while (r.cursor < r.snapshot.size()) {
            int id = r.snapshot[r.cursor];
            Entry &x = *e[id];
            if (!x.present) { ++r.cursor; continue; }             // removed before its turn: skipped
            if (x.valid && !x.muted) return id;
            if (!x.valid) { x.present = false; x.removedInRound = true; ++C.lazyRemovals; }   // invalid at its turn: not called, then removed
            ++r.cursor;
        }
        return -1;
    }

    void onCall(int id, int64_t dg, int *refArg) {
        ++C.calls;
        if (gCaseFailed) return;
        if (rounds.empty()) return fail(gProp, "unexpected-call", site, "observer " + std::to_string(id) + " invoked while no notify is in progress");
        Round &r = *rounds.back();
        int want = advance(r);
        if (want != id) {
            Entry &x = *e[id];
            const char *why = !x.present ? "after it was unsubscribed / removed" : !x.valid ? "after it was invalidated" : x.muted ? "while muted"
                              : "out of subscription order, twice, or although it was added during this round";
            return fail(gProp, "unexpected-call", site, "observer " + std::to_string(id) + " invoked " + why + "; the model expected " +
                        (want < 0 ? std::string("no further call in this round") : "observer " + std::to_string(want)));
        }
        ++r.cursor;
        ++e[id]->calls;
        if (e[id]->countdown && e[id]->calls >= e[id]->countdown) e[id]->valid = false;   // this was its last delivery
        if constexpr (kRef) {
            if (*refArg != (int) r.v + r.callsInRound)
                return fail(gProp, "wrong-argument", site, "observer " + std::to_string(id) + " received int& value " + std::to_string(*refArg) + ", expected " + std::to_string(r.v + r.callsInRound));
            if (refArg != &r.refVar) return fail(gProp, "wrong-argument", site, "int& argument does not refer to the caller's variable");
            *refArg += 1;
        } else if (dg != r.expect) {
            return fail(gProp, "wrong-argument", site, "observer " + std::to_string(id) + " received argument digest " + std::to_string(dg) + ", expected " + std::to_string(r.expect) + " (values differ from those passed to notify)");
        }
        ++r.callsInRound;
        if (scripts) script(id);
        // post-call: an observer that is invalid after its call is removed
        Entry &x = *e[id];
        if (x.present && !x.valid) { x.present = false; x.removedInRound = true; ++C.lazyRemovals; }
    }

    void onDestroy(int id) {
        ++C.tokensDestroyed;
        if (gCaseFailed) return;   // the model stopped following this history at the first violation
        Entry &x = *e[id];
        if (x.destroyed) return fail(gProp, "observer-destroyed-twice", site, "observer " + std::to_string(id));
        x.destroyed = true;
        // an invalidated observer may be removed lazily at its turn inside a round; nothing else may remove a subscribed one
        if (x.present && !subjectDying && (x.valid || rounds.empty()))
            fail(gProp, "observer-destroyed-while-subscribed", site, "observer " + std::to_string(id) + " was destroyed although it is still subscribed");
    }

    // ------------------------------------------------------------------ operations
    std::vector<int> presentIds() {
        std::vector<int> v;
        for (size_t i = 0; i < e.size(); ++i) if (e[i]->present) v.push_back((int) i);
        return v;
    }

    template<class F> auto makeCallable(int id, F) {
        std::shared_ptr<Tok> tok(new Tok{this, id});   // no temporary Tok: its destructor is the monitor
        return [this, id, tok](Args... a) {
            int *ref = nullptr;
            int64_t dg = 0;
            if constexpr (kRef) ref = &std::get<0>(std::forward_as_tuple(a...));
            else dg = digest(a...);
            onCall(id, dg, ref);
            // touch our own captures after the script ran: a callable destroyed under its own feet shows here
            if (tok->id != id) fail(gProp, "callable-destroyed-while-running", site, "captured state of observer " + std::to_string(id) + " changed during its own invocation");
        };
    }

    int subscribe(Subj &s, bool count = true) {
        int id = (int) e.size();
        e.emplace_back(new Entry());
        unsigned form = (unsigned) rng.below(5);
        auto fn = makeCallable(id, 0);
        Entry &x = *e[id];
        if (count) log("sub" + std::to_string(id) + "/" + std::to_string(form));
        switch (form) {
            case 0: x.handle = s.subscribe(fn); break;
            case 1: x.handle = s.subscribe([fn](typename Obs::SelfView self, Args... a) {
                        (void) self->isValid();
                        fn(std::forward<Args>(a)...);
                    }); break;
            case 2: x.handle = s.subscribe(std::make_unique<EternalObserver<Args...>>(typename Obs::Func(fn))); break;
            case 4: {
                int n = (int) rng.range(1, 3);
                auto obs = std::make_unique<CountdownObserver<Args...>>(n);
                CountdownObserver<Args...> *raw = obs.get();
                static_cast<Obs &>(*obs) = typename Obs::Func([fn, raw](Args... a) { --raw->left; fn(std::forward<Args>(a)...); });
                x.countdown = n;
                ++C.countdownObservers;
                x.handle = s.subscribe(std::move(obs));
                break;
            }
            default: x.handle = s.subscribe(new EternalObserver<Args...>(typename Obs::Func(fn))); break;
        }
        x.present = true;
        return id;
    }

    void unsubscribe(int id, bool viaSubject) {
        Entry &x = *e[id];
        log(std::string(viaSubject ? "unsubS" : "unsubH") + std::to_string(id));
        x.present = false;            // before the call: the destructor hook must see it as removed
        if (!rounds.empty()) x.removedInRound = true;
        if (viaSubject) subj->unsubscribe(x.handle);
        else x.handle.unsubscribe();
        if (x.handle.isValid())
            fail(gProp, "handle-state", site, "handle of observer " + std::to_string(id) + " still reports validity after unsubscribe");
        // WHEN a removed observer object is destroyed is not part of either property (an implementation may free it at once,
        // at the end of the round, or keep a graveyard until later): only "never while subscribed" (onDestroy) and "at the
        // latest with the Subject, exactly once" (end of run) are judged.
    }

    void doNotify() {
        Round r;
        r.snapshot = presentIds();
        r.v = nextV++;
        r.refVar = (int) r.v;
        bool nested = !rounds.empty();
        if (r.snapshot.size() >= 2)
            for (int id : r.snapshot) if (!e[id]->valid || e[id]->muted) nontrivial = true;
        ++C.notifies;
        if (nested) ++C.nestedNotifies;
        log(nested ? "(notify" : "NOTIFY");
        rounds.push_back(&r);
        C.maxDepth = std::max<uint64_t>(C.maxDepth, rounds.size());
        bool caught = false;
        try {
            if constexpr (kRef) {
                subj->notify(r.refVar);
            } else if constexpr (kN == 0) {
                r.expect = digest();
                subj->notify();
            } else {
                std::tuple<std::decay_t<Args>...> vals{makeVal<std::decay_t<Args>>(r.v)...};
                r.expect = std::apply([](auto &...a) { return digest(a...); }, vals);
                std::apply([&](auto &...a) { subj->notify(a...); }, vals);
                int64_t after = std::apply([](auto &...a) { return digest(a...); }, vals);
                if (after != r.expect && !gCaseFailed) fail(gProp, "wrong-argument", site, "notify() modified the caller's argument objects");
            }
        } catch (const Boom &) {
            caught = true;
        }
        if (!gCaseFailed && caught != r.aborted)
            fail(gProp, "exception-lost", site, caught ? "notify() threw although no callback of this round did" : "a callback threw but notify() returned normally");
        if (!gCaseFailed && !r.aborted) {
            int left = advance(r);
            if (left >= 0)
                fail(gProp, "missing-call", site, "round returned although observer " + std::to_string(left) + " (subscribed, valid, unmuted at the time of the call) was never invoked");
            if constexpr (kRef)
                if (left < 0 && r.refVar != (int) r.v + r.callsInRound) fail(gProp, "wrong-argument", site, "int& argument ended as " + std::to_string(r.refVar));
        }
        rounds.pop_back();
        if (nested) log(")");
        if (rounds.empty() && !gCaseFailed) {
            for (size_t i = foreign; i < e.size(); ++i) e[i]->removedInRound = false;
        }
    }

    // C10: what a callback does to the Subject while being notified
    void script(int self) {
        if (!rng.chance(550)) return;
        int n = (int) rng.range(1, 2);
        for (int k = 0; k < n && !gCaseFailed; ++k) {
            auto ids = presentIds();
            unsigned r = (unsigned) rng.below(100);
            ++C.inRoundActions;
            nontrivial = true;
            auto target = [&]() -> int {
                if (ids.empty()) return -1;
                if (rng.chance(400) && e[self]->present) return self;
                return ids[rng.below(ids.size())];
            };
            if (r < 20) { if (e.size() < 40) { ++C.actionCount["subscribe"]; log("[" + std::to_string(self) + ":"); subscribe(*subj); log("]"); } }
            else if (r < 50) {
                int t = target();
                if (t >= 0) {
                    ++C.actionCount[t == self ? "unsubscribe-self" : (e[t]->calls ? "unsubscribe-other" : "unsubscribe-not-yet-called")];
                    if (t == self) ++C.selfUnsub; else ++C.unsubOther;
                    log("[" + std::to_string(self) + ":");
                    unsubscribe(t, rng.chance(500));
                    log("]");
                }
            }
            else if (r < 60) { int t = target(); if (t >= 0) { ++C.actionCount["mute"]; log("[" + std::to_string(self) + ":mute" + std::to_string(t) + "]"); e[t]->handle.mute(); e[t]->muted = true; } }
            else if (r < 68) { int t = target(); if (t >= 0) { ++C.actionCount["unmute"]; log("[" + std::to_string(self) + ":unmute" + std::to_string(t) + "]"); e[t]->handle.unmute(); e[t]->muted = false; } }
            else if (r < 82) {
                int t = target();
                if (t >= 0) { ++C.actionCount[t == self ? "invalidate-self" : "invalidate-other"]; log("[" + std::to_string(self) + ":inval" + std::to_string(t) + "]"); e[t]->handle.getObserver()->invalidate(); e[t]->valid = false; }
            }
            else if (r < 86) {
                // the callback fails: the exception travels through notify() to whoever called it (here: doNotify of this
                // round), the round ends there, and the Subject must be as usable as before
                ++C.actionCount["throw"];
                ++C.thrown;
                log("[" + std::to_string(self) + ":throw]");
                rounds.back()->aborted = true;
                throw Boom{};
            }
            else if (rounds.size() < 3) { ++C.actionCount["nested-notify"]; log("[" + std::to_string(self) + ":"); doNotify(); log("]"); }
        }
    }

    void checkHandles() {
        bool any = false;
        for (size_t i = 0; i < e.size() && !gCaseFailed; ++i) {
            Entry &x = *e[i];
            if (x.present) {
                any = true;
                if (x.valid && !x.handle.isValid()) fail("C05", "handle-state", site, "isValid() is false for subscribed, valid observer " + std::to_string(i));
                if (x.handle.isMuted() != x.muted) fail("C05", "handle-state", site, "isMuted() wrong for observer " + std::to_string(i));
                if (x.handle.getSubject() != subj.get()) fail("C05", "handle-state", site, "getSubject() wrong for observer " + std::to_string(i));
                if (!subj->isSubscriptionValid(x.handle) && x.valid) fail("C05", "handle-state", site, "isSubscriptionValid() false for a live subscription");
            } else if (x.handle.isValid()) {
                fail("C05", "handle-state", site, "handle of removed observer " + std::to_string(i) + " reports isValid()");
            }
        }
        if (!gCaseFailed && subj->hasSubscriptions() != any) fail("C05", "handle-state", site, "hasSubscriptions() disagrees with the model");
    }

    void staleProbe() {
        // a stale or foreign handle must be rejected with an exception and leave the Subject untouched
        unsigned kind = (unsigned) rng.below(5);
        Sub dflt;
        Sub *h = nullptr;
        const char *what = "";
        if (kind == 0) { h = &dflt; what = "default-constructed"; }
        else if (kind == 1 && !spare.empty()) { h = &spare[rng.below(spare.size())]; what = "moved-from/cleared"; }
        else if (kind == 2) {
            for (auto &p : e) if (!p->present) { h = &p->handle; what = "unsubscribed-or-lazily-removed"; if (rng.chance(400)) break; }
        } else if (!otherHandles.empty()) { h = &otherHandles[rng.below(otherHandles.size())]; what = "foreign (other Subject, same numeric id)"; }
        if (!h) return;
        note("stale-handle");
        log(std::string("stale:") + what[0]);
        bool threw = false;
        try { subj->unsubscribe(*h); }
        catch (...) { threw = true; }   // "with an exception": which one is not part of the statement
        if (!threw) return fail("C05", "stale-handle-accepted", site, std::string("Subject::unsubscribe accepted a ") + what + " handle");
        if (subj->isSubscriptionValid(*h)) return fail("C05", "stale-handle-accepted", site, std::string("isSubscriptionValid() true for a ") + what + " handle");
        ++C.staleRejected;
        nontrivial = true;
    }

    void moveHandle() {
        auto ids = presentIds();
        if (ids.empty()) return;
        int id = ids[rng.below(ids.size())];
        note("handle-move");
        log("mv" + std::to_string(id));
        if (rng.chance(150)) { Sub &self = e[id]->handle; e[id]->handle = std::move(self); }   // self-assignment leaves the handle as it is
        Sub tmp(std::move(e[id]->handle));             // move-construct
        if (e[id]->handle.isValid()) return fail("C05", "handle-state", site, "a moved-from handle still reports validity (two valid handles for one subscription)");
        if (rng.chance(500)) {
            Sub tmp2;
            tmp2 = std::move(tmp);                     // move-assign
            e[id]->handle = std::move(tmp2);
            spare.push_back(std::move(tmp2));
        } else {
            e[id]->handle = std::move(tmp);
        }
        spare.push_back(std::move(tmp));
        if (spare.size() > 8) spare.erase(spare.begin());
        ++C.handleMoves;
    }

    void run(int steps) {
        // the foreign Subject gets observers first so that numeric ids collide
        for (int i = 0; i < 3; ++i) {
            int id = subscribe(*other, false);
            e[id]->present = false;   // not part of the model of `subj`
            e[id]->destroyed = false;
            otherHandles.push_back(std::move(e[id]->handle));
        }
        foreign = e.size();
        for (int st = 0; st < steps && !gCaseFailed; ++st) {
            rt::crumb("subject<%zu args> step %d: %s", kN, st, gHist.size() > 170 ? gHist.c_str() + gHist.size() - 170 : gHist.c_str());
            auto ids = presentIds();
            unsigned r = (unsigned) rng.below(1000), acc = 0;
            auto in = [&](unsigned w) { acc += w; return r < acc; };
            if (in(220) || ids.empty()) { if (e.size() < 40) { note("subscribe"); subscribe(*subj); } }
            else if (in(260)) { note("notify"); doNotify(); }
            else if (in(90)) { note("unsubscribe"); unsubscribe(ids[rng.below(ids.size())], rng.chance(500)); }
            else if (in(80)) { note("mute"); int t = ids[rng.below(ids.size())]; log("mute" + std::to_string(t)); e[t]->handle.mute(); e[t]->muted = true; }
            else if (in(70)) { note("unmute"); int t = ids[rng.below(ids.size())]; log("unmute" + std::to_string(t)); e[t]->handle.unmute(); e[t]->muted = false; }
            else if (in(80)) { note("invalidate"); int t = ids[rng.below(ids.size())]; log("inval" + std::to_string(t)); e[t]->handle.getObserver()->invalidate(); e[t]->valid = false; }
            else if (in(80)) moveHandle();
            else staleProbe();
            if (!gCaseFailed) checkHandles();
        }
        if (!gCaseFailed) { note("notify"); doNotify(); }
        if (gCaseFailed) {
            // state may be corrupted: do not run more library code on it
            (void) subj.release();
            for (auto &p : e) (void) p.release();
            return;
        }
        // destruction of the Subject destroys every remaining observer exactly once
        note("destroy-subject");
        subjectDying = true;
        subj.reset();
        for (size_t i = foreign; i < e.size(); ++i)
            if (!e[i]->destroyed) { fail(gProp, "observer-not-destroyed", site, "observer " + std::to_string(i) + " survived the destruction of its Subject"); break; }
        // the foreign Subject was never touched by the stale-handle probes
        for (auto &h : otherHandles)
            if (!other->isSubscriptionValid(h)) { fail("C05", "stale-handle-accepted", site, "a rejected foreign handle lost its validity on its own Subject"); break; }
        otherHandles.clear();
        other.reset();   // before `e`: the observers' tokens report into it
    }
};

template<class... Args>
void runCase(uint64_t seed, int steps, bool scripts, const char *sig) {
    auto *r = new Runner<Args...>(seed, scripts);
    r->run(steps);
    ++C.histories;
    ++C.sigCount[sig];
    if (r->nontrivial || r->hist.get()) {
        if (r->nontrivial) ++C.nontrivialCases;
        if (r->nontrivial) C.fps.push_back(r->hist.get());
        if (C.samples.size() < 4 && gHist.size() < 500 && r->nontrivial)
            C.samples.push_back(rt::Json().kv("signature", sig).kv("history", gHist).str());
    }
    if (!gCaseFailed) delete r;   // `other` and its observers go here
}


// ------------------------------------------------------------------ long lives and bursts
// Whatever a Subject counts (subscription ids, removals, rounds) only shows at sizes no random history of a few
// dozen steps reaches: one Subject lives through more than 2^16 subscriptions while early observers stay subscribed
// (flat history, C05), and one callback subscribes and drops a burst of 2^8 / 2^16 / 2^17 (+-1) observers before it
// unsubscribes a neighbour that has not been called yet (C10). Results are known exactly.
// Two Subjects of the same type, an observer of the first notifies the second from inside its callback: both rounds are
// complete and in order (whatever a Subject keeps per round belongs to that Subject and that round).
void runChained(rt::Rng rng) {
    Subject<int> a, b;
    std::vector<int> order;
    int nA = (int) rng.range(2, 5), nB = (int) rng.range(1, 4), bridge = (int) rng.below((uint64_t) nA);
    gProp = "C10";
    gHist = "two Subject<int>: observer #" + std::to_string(bridge) + " of " + std::to_string(nA) + " on the first notifies the second (" + std::to_string(nB) + " observers) from its callback";
    rt::crumb("%s", gHist.c_str());
    std::vector<Subscription<int>> keep;
    for (int i = 0; i < nB; ++i) keep.push_back(b.subscribe([&order, i](int v) { order.push_back(1000 + i * 10 + v); }));
    for (int i = 0; i < nA; ++i) keep.push_back(a.subscribe([&, i](int v) { order.push_back(100 + i); if (i == bridge) b.notify(v + 1); }));
    for (int round = 0; round < 2 && !gCaseFailed; ++round) {
        order.clear();
        a.notify(round);
        std::vector<int> want;
        for (int i = 0; i < nA; ++i) { want.push_back(100 + i); if (i == bridge) for (int k = 0; k < nB; ++k) want.push_back(1000 + k * 10 + round + 1); }
        if (order != want) fail("C10", "chained-delivery", "notify", gHist + ": the calls were not [first Subject's observers in order, with the second Subject's complete round inside] (" + std::to_string(order.size()) + " calls, expected " + std::to_string(want.size()) + ")");
    }
    ++C.chainedRuns;
    ++C.histories;
    if (!gCaseFailed) { ++C.nontrivialCases; rt::Hash h; for (char c : gHist) h.add((uint64_t) c); C.fps.push_back(h.get()); }
}

void runLongLife(rt::Rng rng, bool burst) {
    Subject<int> subj;
    std::vector<int> order;   // ids in call order of the current round
    auto obs = [&order](int id) { return [&order, id](int) { order.push_back(id); }; };
    static const int64_t sizes[] = {255, 256, 257, 65535, 65536, 65537, 131072, 70000, 140000};
    char d[200];
    if (!burst) {
        gProp = "C05";
        int64_t n = sizes[3 + rng.below(6)];
        if (rng.chance(500)) n = (int64_t) rng.range(300, 3000);
        auto first = subj.subscribe(obs(1));
        Subscription<int> mid;
        int64_t midAt = (int64_t) rng.range(1, 400);
        snprintf(d, sizeof d, "long life: %lld subscribe/unsubscribe cycles on one Subject<int>, a second resident joins at cycle %lld", (long long) n, (long long) midAt);
        gHist = d;
        rt::crumb("%s", d);
        for (int64_t k = 0; k < n && !gCaseFailed; ++k) {
            if (k == midAt) mid = subj.subscribe(obs(2));
            auto temp = subj.subscribe(obs(3));
            bool look = k < 4 || (k & (k + 1)) == 0 || (k >= 65530 && k <= 65540) || (k >= 131066 && k <= 131076) || rng.chance(2);
            if (look) {
                order.clear();
                subj.notify((int) k);
                std::vector<int> want = k >= midAt ? std::vector<int>{1, 2, 3} : std::vector<int>{1, 3};
                if (order != want) { fail("C05", "long-life-delivery", "cycle", std::string(d) + ": at cycle " + std::to_string(k) + " a notify reached " + std::to_string(order.size()) + " observer(s) in an order other than residents first, newcomer last"); break; }
            }
            temp.unsubscribe();
            if (look || k + 1 == n) {
                if (!first.isValid() || (k >= midAt && !mid.isValid())) { fail("C05", "long-life-handle", "cycle", std::string(d) + ": after the newcomer of cycle " + std::to_string(k) + " unsubscribed, a resident's handle is no longer valid"); break; }
                order.clear();
                subj.notify((int) k);
                std::vector<int> want = k >= midAt ? std::vector<int>{1, 2} : std::vector<int>{1};
                if (order != want) { fail("C05", "long-life-delivery", "cycle", std::string(d) + ": after the newcomer of cycle " + std::to_string(k) + " unsubscribed, a notify reached " + std::to_string(order.size()) + " observer(s) instead of the resident(s)"); break; }
            }
        }
        C.longLifeCycles += (uint64_t) n;
    } else {
        gProp = "C10";
        int64_t kBurst = sizes[rng.below(7)];
        bool keep = kBurst <= 257 && rng.chance(500);     // the burst stays subscribed: first invoked in the next round
        snprintf(d, sizeof d, "burst: a callback subscribes %s %lld observers, then unsubscribes a neighbour that has not been called yet", keep ? "(and keeps)" : "and drops", (long long) kBurst);
        gHist = d;
        rt::crumb("%s", d);
        std::vector<Subscription<int>> kept;
        Subscription<int> victim;
        bool armed = true;
        auto a = subj.subscribe([&](int) {
            order.push_back(1);
            if (!armed) return;
            armed = false;
            for (int64_t k = 0; k < kBurst; ++k) {
                auto t = subj.subscribe(obs(9));
                if (keep) kept.push_back(std::move(t)); else t.unsubscribe();
            }
            victim.unsubscribe();
        });
        victim = subj.subscribe(obs(2));
        auto z = subj.subscribe(obs(3));
        order.clear();
        subj.notify(1);
        if (order != std::vector<int>{1, 3}) fail("C10", "burst-delivery", "round", std::string(d) + ": that round reached " + std::to_string(order.size()) + " observer(s) instead of the callback itself and the one neighbour that stayed");
        else {
            order.clear();
            subj.notify(2);
            std::vector<int> want{1, 3};
            if (keep) want.insert(want.end(), (size_t) kBurst, 9);
            if (order != want) fail("C10", "burst-delivery", "next-round", std::string(d) + ": the following round reached " + std::to_string(order.size()) + " observer(s), expected " + std::to_string(want.size()));
        }
        if (!gCaseFailed && (!a.isValid() || !z.isValid() || victim.isValid())) fail("C10", "burst-handle", "round", std::string(d) + ": handle validity is wrong afterwards");
        C.burstObservers += (uint64_t) kBurst;
    }
    ++C.longLifeRuns;
    ++C.histories;
    if (!gCaseFailed) {
        ++C.nontrivialCases;
        rt::Hash h;
        for (char c : gHist) h.add((uint64_t) c);
        C.fps.push_back(h.get());
    }
}

} // namespace

int main(int argc, char **argv) {
    rt::init(argc, argv);
    rt::cpuBudgetPerCase(240);   // single-threaded, deterministic: a case that burns 240 s of CPU time does not terminate
    bool allScripted = rt::st().prop == "C10";
    unsigned scriptShare = (unsigned) rt::optInt("scriptshare", 150);   // C05 runs: per mille of histories whose callbacks act on the Subject
    int maxStepsFlat = (int) rt::optInt("steps", 150), maxStepsScripted = (int) rt::optInt("steps", 60);
    for (uint64_t c = rt::st().from; c < rt::st().from + rt::st().count; ++c) {
        rt::setCase(c);
        rt::Rng rng(rt::mix(rt::st().seed, c));
        gHist.clear();
        gCaseFailed = false;
        if (rng.chance((unsigned) rt::optInt("longlife", 3))) { if (rng.chance(300)) runChained(rng); else runLongLife(rng, allScripted || rng.chance(400)); continue; }
        bool scripts = allScripted || rng.chance(scriptShare);
        gProp = scripts ? "C10" : "C05";
        int maxSteps = scripts ? maxStepsScripted : maxStepsFlat;
        int steps = (int) (rng.chance(250) ? rng.range(1, 12) : rng.range(10, maxSteps));
        uint64_t s = rng.next();
        switch (rng.below(6)) {
            case 0: runCase<>(s, steps, scripts, "<>"); break;
            case 1: runCase<int>(s, steps, scripts, "<int>"); break;
            case 2: runCase<const std::string &>(s, steps, scripts, "<const std::string&>"); break;
            case 3: runCase<int, std::string>(s, steps, scripts, "<int, std::string>"); break;
            case 4: runCase<Payload>(s, steps, scripts, "<Payload by value>"); break;
            default: runCase<int &>(s, steps, scripts, "<int&>"); break;
        }
    }
    rt::dumpFingerprints(C.fps);
    rt::finish(rt::Json().kv("engine", "h_subject").kv("histories", C.histories).kv("ops", C.ops).kv("notifies", C.notifies)
                   .kv("nestedNotifies", C.nestedNotifies).kv("calls", C.calls).kv("inRoundActions", C.inRoundActions)
                   .kv("staleRejected", C.staleRejected).kv("selfUnsub", C.selfUnsub).kv("unsubOther", C.unsubOther)
                   .kv("lazyRemovals", C.lazyRemovals).kv("handleMoves", C.handleMoves).kv("nontrivialCases", C.nontrivialCases)
                   .kv("maxDepth", C.maxDepth).kv("tokensDestroyed", C.tokensDestroyed).kv("callbacksThatThrew", C.thrown).kv("countdownObservers", C.countdownObservers).kv("chainedSubjectRuns", C.chainedRuns).kv("longLifeRuns", C.longLifeRuns).kv("longLifeCycles", C.longLifeCycles).kv("burstObservers", C.burstObservers)
                   .raw("opCount", rt::jsonCounts(C.opCount)).raw("signatures", rt::jsonCounts(C.sigCount))
                   .raw("inRoundActionKinds", rt::jsonCounts(C.actionCount)).raw("samples", rt::jsonArray(C.samples, false)));
    return 0;
}
