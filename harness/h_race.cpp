// Engine for C15: the threading components are free of data races under their
// intended use. Built with ThreadSanitizer only (never with the interposer).
// The oracle is TSan itself: the driver counts and de-duplicates the report
// blocks in the TSan log; a report without a tulz frame is a harness bug
// (inconclusive), never a violation. All harness-side shared state is atomic
// or confined to one thread, so the monitor is not the race.
//
// case % 4 selects the workload:
//   0 Resource + ReadLock/WriteLock protecting plain data
//   1 ThreadPool: one owner (start/clear/update/stop/getters), workers run tasks and expire
//   2 ConcurrentSubjectRouter: many threads on notify/subscribe/unsubscribe/shrink/exists/depth
//   3 tulz::Thread: start, poll isFinished()/isRunning(), join
#include "../rt/rt.h"

#include <tulz/observer/routing/ConcurrentSubjectRouter.h>
#include <tulz/observer/routing/RoutingKeyBuilder.h>
#include <tulz/threading/Thread.h>
#include <tulz/threading/ThreadPool.h>
#include <tulz/threading/rwp/ReadLock.h>
#include <tulz/threading/rwp/Resource.h>
#include <tulz/threading/rwp/WriteLock.h>

#include <atomic>
#include <memory>
#include <sched.h>
#include <thread>
#include <unistd.h>

using namespace tulz;

namespace {

struct Cover {
    std::atomic<uint64_t> lockSections{0}, poolTasks{0}, poolStarts{0}, poolUpdates{0}, poolStops{0}, poolExpiryCycles{0}, poolClears{0};
    std::atomic<uint64_t> routerThrows{0}, routerNestedQueries{0}, routerOps{0}, routerCallbacks{0}, threadStarts{0}, threadPolls{0};
    uint64_t workloads[4] = {0, 0, 0, 0};
    uint64_t maxThreads = 0;
    std::vector<uint64_t> fps;
    std::vector<std::string> samples;
} C;

void yieldSome(rt::Rng &r) {
    unsigned k = (unsigned) r.below(8);
    if (k == 0) sched_yield();
    else if (k == 1) usleep((useconds_t) r.below(60));
}

// ---------------------------------------------------------------- 0: Resource
void wlResource(rt::Rng rng) {
    rwp::Resource res;
    struct Plain { long a = 0, b = 0; char text[32] = {0}; } data;   // protected only by `res`
    int nT = (int) rng.range(4, 32);
    int per = (int) std::max<long>(50, rt::optInt("ops", 20000) / nT);
    C.maxThreads = std::max<uint64_t>(C.maxThreads, (uint64_t) nT);
    std::atomic<int> go{0};
    std::atomic<long> sink{0};
    std::vector<std::thread> th;
    for (int t = 0; t < nT; ++t)
        th.emplace_back([&, seed = rng.next()] {
            rt::Rng r(seed);
            while (!go.load()) sched_yield();
            for (int k = 0; k < per; ++k) {
                bool w = r.chance(200), guard = r.chance(500);
                if (w) {
                    if (guard) { rwp::WriteLock l{res}; ++data.a; data.b = -data.a; snprintf(data.text, sizeof data.text, "%ld", data.a); }
                    else { res.lockWrite(); ++data.a; data.b = -data.a; data.text[0] = (char) ('0' + data.a % 10); res.unlockWrite(); }
                } else {
                    if (guard) { rwp::ReadLock l{res}; sink.fetch_add(data.a + data.b + data.text[0]); }
                    else { res.lockRead(); sink.fetch_add(data.a + data.b + data.text[1]); res.unlockRead(); }
                }
                C.lockSections.fetch_add(1, std::memory_order_relaxed);
                yieldSome(r);
            }
        });
    go.store(1);
    for (auto &x : th) x.join();
}

// ---------------------------------------------------------------- 1: ThreadPool
std::atomic<long> gTaskSink{0};
struct RaceTask : Runnable {
    long local = 0;
    unsigned spin;
    explicit RaceTask(unsigned s) : spin(s) {}
    void run() override {
        for (unsigned i = 0; i < spin; ++i) local += i;
        gTaskSink.fetch_add(local, std::memory_order_relaxed);
        C.poolTasks.fetch_add(1, std::memory_order_relaxed);
    }
};

void wlPool(rt::Rng rng) {
    auto *pool = new ThreadPool();
    int maxT = (int) rng.range(1, 8);
    pool->setMaxThreadCount(maxT);
    pool->setExpiryTimeout((int) rng.range(2, 6));   // ms; set before the first start, as the property's use prescribes
    C.maxThreads = std::max<uint64_t>(C.maxThreads, (uint64_t) maxT + 1);
    int rounds = (int) std::max<long>(3, rt::optInt("poolrounds", 25));
    long sum = 0;
    for (int rd = 0; rd < rounds; ++rd) {
        int burst = (int) rng.range(1, 40);
        for (int i = 0; i < burst; ++i) {
            if (rng.chance(700)) pool->start(new RaceTask((unsigned) rng.below(2000)));
            else { unsigned s = (unsigned) rng.below(2000); pool->start([s] { long l = 0; for (unsigned k = 0; k < s; ++k) l += k; gTaskSink.fetch_add(l, std::memory_order_relaxed); C.poolTasks.fetch_add(1, std::memory_order_relaxed); }); }
            C.poolStarts.fetch_add(1, std::memory_order_relaxed);
            sum += pool->getThreadCount() + pool->getActiveThreadCount() + pool->getMaxThreadCount() + pool->getExpiryTimeout() + (pool->isRunning() ? 1 : 0);
            if (rng.chance(80)) { pool->clear(); C.poolClears.fetch_add(1, std::memory_order_relaxed); }
            if (rng.chance(120)) { pool->update(); C.poolUpdates.fetch_add(1, std::memory_order_relaxed); }
        }
        unsigned how = (unsigned) rng.below(10);
        if (how < 5) {
            // let the workers go idle past the expiry timeout, wake them so that they expire, collect them
            usleep((useconds_t) (7000 + rng.below(6000)));
            pool->update();
            usleep((useconds_t) rng.below(3000));
            pool->update();
            C.poolUpdates.fetch_add(2, std::memory_order_relaxed);
            C.poolExpiryCycles.fetch_add(1, std::memory_order_relaxed);
            sum += pool->getThreadCount() + pool->getActiveThreadCount();
        } else if (how < 8) {
            pool->stop();
            C.poolStops.fetch_add(1, std::memory_order_relaxed);
            sum += pool->getThreadCount();
        } else usleep((useconds_t) rng.below(2000));
    }
    pool->stop();
    C.poolStops.fetch_add(1, std::memory_order_relaxed);
    gTaskSink.fetch_add(sum);
    delete pool;
}

// ---------------------------------------------------------------- 2: ConcurrentSubjectRouter
void wlRouter(rt::Rng rng) {
    auto router = std::make_unique<ConcurrentSubjectRouter>();
    // a second router that observers of the first one consult from inside their callbacks while other threads
    // restructure it: whatever the first router's lock keeps per thread must not leak into the second one
    auto registry = std::make_unique<ConcurrentSubjectRouter>();
    struct Boom {};
    static thread_local bool tlsThrow = false;   // observers throw when the notifying thread asks for it
    static const char *names[] = {"a", "b", "c"};
    // libstdc++ fills its ctype narrow/widen cache lazily and unsynchronised while a std::regex is
    // compiled: warm it up for the one regex the workload uses before any thread exists
    { auto warm = RoutingKeyBuilder{}.all().build(); (void) warm; }
    int nT = (int) rng.range(4, 16);
    int per = (int) std::max<long>(30, rt::optInt("ops", 20000) / 4 / nT);
    C.maxThreads = std::max<uint64_t>(C.maxThreads, (uint64_t) nT);
    std::atomic<int> go{0};
    std::atomic<long> hits{0};
    std::vector<std::thread> th;
    for (int t = 0; t < nT; ++t)
        th.emplace_back([&, seed = rng.next()] {
            rt::Rng r(seed);
            std::vector<std::unique_ptr<USubscription>> mine, regMine;
            auto key = [&](bool wild) {
                RoutingKeyBuilder b;
                int depth = (int) r.range(1, 2);
                for (int i = 0; i < depth; ++i) { if (wild && r.chance(400)) b.all(); else b.level(std::string(names[r.below(3)])); }
                return b.build();
            };
            while (!go.load()) sched_yield();
            for (int k = 0; k < per; ++k) {
                unsigned q = (unsigned) r.below(100);
                if (q < 36) router->notify(key(true));
                else if (q < 40) {
                    tlsThrow = true;
                    try { router->notify(key(true)); } catch (const Boom &) { C.routerThrows.fetch_add(1, std::memory_order_relaxed); }
                    tlsThrow = false;
                }
                else if (q < 62) {
                    unsigned kind = (unsigned) r.below(10);
                    auto *reg = registry.get();
                    if (kind < 6) mine.push_back(std::make_unique<USubscription>(router->subscribe(key(false), [&hits] { hits.fetch_add(1, std::memory_order_relaxed); C.routerCallbacks.fetch_add(1, std::memory_order_relaxed); })));
                    else if (kind < 8) mine.push_back(std::make_unique<USubscription>(router->subscribe(key(false), [&hits] { C.routerCallbacks.fetch_add(1, std::memory_order_relaxed); if (tlsThrow) throw Boom{}; hits.fetch_add(1, std::memory_order_relaxed); })));
                    else mine.push_back(std::make_unique<USubscription>(router->subscribe(key(false), [&hits, reg] {
                        C.routerCallbacks.fetch_add(1, std::memory_order_relaxed);
                        C.routerNestedQueries.fetch_add(1, std::memory_order_relaxed);
                        hits.fetch_add((long) reg->depth() + (reg->exists(RoutingKeyBuilder{}.level(std::string("a")).build()) ? 1 : 0), std::memory_order_relaxed);
                    })));
                }
                else if (q < 66) {
                    // the registry changes meanwhile
                    unsigned kind = (unsigned) r.below(3);
                    if (kind == 0) regMine.push_back(std::make_unique<USubscription>(registry->subscribe(key(false), [&hits] { hits.fetch_add(1, std::memory_order_relaxed); })));
                    else if (kind == 1) { if (!regMine.empty()) { (*regMine.back())->unsubscribe(); regMine.pop_back(); } }
                    else registry->shrink(key(true));
                }
                else if (q < 80) { if (!mine.empty()) { size_t i = r.below(mine.size()); (*mine[i])->unsubscribe(); mine.erase(mine.begin() + (long) i); } }
                else if (q < 88) router->shrink(key(true));
                else if (q < 95) hits.fetch_add(router->exists(key(true)) ? 1 : 0, std::memory_order_relaxed);
                else hits.fetch_add((long) router->depth(), std::memory_order_relaxed);
                C.routerOps.fetch_add(1, std::memory_order_relaxed);
                yieldSome(r);
            }
            for (auto &s : mine) (*s)->unsubscribe();
            for (auto &s : regMine) (*s)->unsubscribe();
        });
    go.store(1);
    for (auto &x : th) x.join();
}

// ---------------------------------------------------------------- 3: tulz::Thread
struct PollRunnable : Runnable {
    std::atomic<long> *sink;
    unsigned spin;
    PollRunnable(std::atomic<long> *s, unsigned n) : sink(s), spin(n) {}
    void run() override { long l = 0; for (unsigned i = 0; i < spin; ++i) l += i; sink->fetch_add(l, std::memory_order_relaxed); }
};
void threadFn(std::atomic<long> &sink, int &spin) { long l = 0; for (int i = 0; i < spin; ++i) l += i; sink.fetch_add(l, std::memory_order_relaxed); }

void wlThread(rt::Rng rng) {
    int n = (int) std::max<long>(20, rt::optInt("threadstarts", 300));
    std::atomic<long> sink{0};
    for (int i = 0; i < n; ++i) {
        Thread t;
        int spin = (int) rng.below(3000);
        unsigned kind = (unsigned) rng.below(4);
        long plainResult = 0;   // written by the callable, read by the owner once isFinished() says so (no join yet)
        if (kind == 0) t.start(new PollRunnable(&sink, (unsigned) spin));
        else if (kind == 1) t.start([&sink, spin] { long l = 0; for (int k = 0; k < spin; ++k) l += k; sink.fetch_add(l, std::memory_order_relaxed); });
        else if (kind == 2) t.start(&threadFn, sink, spin);
        else t.start([&plainResult, spin] { long l = 1; for (int k = 0; k < spin; ++k) l += k; plainResult = l; });
        C.threadStarts.fetch_add(1, std::memory_order_relaxed);
        if (kind == 3 || rng.chance(700)) {
            while (!t.isFinished()) { C.threadPolls.fetch_add(1, std::memory_order_relaxed); if (t.isRunning() && rng.chance(300)) sched_yield(); }
            // "isFinished() becomes true only after the callable has returned": its results may be used now
            if (kind == 3) sink.fetch_add(plainResult, std::memory_order_relaxed);
        }
        t.join();
    }
}

} // namespace

int main(int argc, char **argv) {
    rt::init(argc, argv);
    static const char *wn[] = {"Resource+guards", "ThreadPool owner/workers/expiry", "ConcurrentSubjectRouter", "tulz::Thread start/poll/join"};
    long only = rt::optInt("workload", -1);
    for (uint64_t c = rt::st().from; c < rt::st().from + rt::st().count; ++c) {
        rt::setCase(c);
        rt::Rng rng(rt::mix(rt::st().seed, c));
        int w = only >= 0 ? (int) only : (int) (c % 4);
        rt::crumb("workload %s", wn[w]);
        ++C.workloads[w];
        switch (w) {
            case 0: wlResource(rng); break;
            case 1: wlPool(rng); break;
            case 2: wlRouter(rng); break;
            default: wlThread(rng); break;
        }
        rt::Hash h;
        h.add(c); h.add((uint64_t) w); h.add(rt::st().seed);
        C.fps.push_back(h.get());
        if (C.samples.size() < 4) C.samples.push_back(rt::Json().kv("case", c).kv("workload", wn[w]).str());
    }
    rt::dumpFingerprints(C.fps);
    rt::finish(rt::Json().kv("engine", "h_race").kv("runs", (uint64_t) rt::st().count)
                   .kv("runsResource", C.workloads[0]).kv("runsPool", C.workloads[1]).kv("runsRouter", C.workloads[2]).kv("runsThread", C.workloads[3])
                   .kv("lockSections", C.lockSections.load()).kv("poolTasksRun", C.poolTasks.load()).kv("poolStarts", C.poolStarts.load())
                   .kv("poolUpdates", C.poolUpdates.load()).kv("poolStops", C.poolStops.load()).kv("poolClears", C.poolClears.load())
                   .kv("poolExpiryCycles", C.poolExpiryCycles.load()).kv("routerOps", C.routerOps.load()).kv("routerCallbacks", C.routerCallbacks.load()).kv("routerDeliveriesEndedByException", C.routerThrows.load()).kv("routerQueriesOfASecondRouterFromCallbacks", C.routerNestedQueries.load())
                   .kv("threadStarts", C.threadStarts.load()).kv("threadPolls", C.threadPolls.load()).kv("maxThreads", C.maxThreads)
                   .raw("samples", rt::jsonArray(C.samples, false)));
    return 0;
}
