// Engine for C16: Observable notifies exactly on change, with the new value.
// A model value of the same C++ type with the same Eq runs in lock-step; after
// every operation the subscriber call log, the received values/references and
// the stored value are compared.
#include "../rt/rt.h"

#include <tulz/observer/Observable.h>

#include <cmath>
#include <typeinfo>
#include <memory>

using namespace tulz;

namespace {

struct Cover {
    uint64_t movedBeforeUse = 0, clampHistories = 0, clampCorrections = 0;
    uint64_t histories = 0, ops = 0, changed = 0, unchanged = 0, calls = 0, subs = 0, unsubs = 0, nontrivialCases = 0, eqEqualButDifferent = 0;
    std::map<std::string, uint64_t> opCount, typeCount;
    std::vector<uint64_t> fps;
    std::vector<std::string> samples;
} C;

std::string gHist;
bool gCaseFailed = false;

void fail(const char *rule, const char *site, const std::string &d) {
    gCaseFailed = true;
    rt::violation("C16", rule, site, d + " | history: " + (gHist.size() > 1400 ? "..." + gHist.substr(gHist.size() - 1400) : gHist));
}

struct Tol {
    double eps = 0.5;
    bool operator()(const double &a, const double &b) const { return std::fabs(a - b) <= eps; }
};

template<class T> std::string show(const T &v) {
    if constexpr (std::is_same_v<T, std::string>) return "'" + v + "'";
    else if constexpr (std::is_floating_point_v<T>) { char b[48]; snprintf(b, sizeof b, "%.9g", (double) v); return b; }
    else return std::to_string(v);
}
template<class T> bool bitEqual(const T &a, const T &b) {
    if constexpr (std::is_same_v<T, std::string>) return a == b;
    else return memcmp(&a, &b, sizeof(T)) == 0;
}

template<class T, class Eq, bool kDefaultEq>
struct Runner {
    // default equality is taken from the library's own default template argument, not spelled out here
    using Obs = std::conditional_t<kDefaultEq, Observable<T>, Observable<T, Eq>>;
    static constexpr bool kString = std::is_same_v<T, std::string>;
    static constexpr bool kFloat = std::is_floating_point_v<T>;

    struct SubRec {
        bool live = false;
        decltype(std::declval<Obs &>().subscribe(std::declval<void (*)(const T &)>())) handle;
        T lastSeen{};
        int callsThisOp = 0;
        T seenThisOp{};
        bool refOk = true;
    };

    std::unique_ptr<Obs> obs;
    T model{};
    Eq eq{};
    SubRec subs[4];
    rt::Rng rng;
    rt::Hash hist;
    bool nontrivial = false;
    const char *site = "";

    Runner(uint64_t seed) : rng(seed) {}

    void log(const std::string &t) {
        gHist += t;
        gHist += ' ';
        for (char c : t) hist.add((uint64_t) c);
    }
    T randomValue() {
        if constexpr (kString) {
            static const char *w[] = {"", "a", "b", "ab", "a-string-that-does-not-fit-the-small-buffer-optimisation", "zz"};
            return w[rng.below(6)];
        } else if constexpr (kFloat) {
            // sometimes a magnitude at which +1 / -1 is absorbed by rounding (float: 2^24, double: 2^53)
            if (rng.chance(60)) return (T) (std::is_same_v<T, float> ? 16777216.0 : 9007199254740992.0) * (rng.chance(500) ? 1 : -1);
            // values close to each other so that the tolerance comparator is exercised on both sides
            return (T) (rng.range(-8, 8) * 0.25 + (rng.chance(300) ? 0.125 : 0.0));
        } else return (T) rng.range(-6, 6);
    }
    T operand(bool nonZero) {
        if constexpr (kString) return randomValue();
        else if constexpr (kFloat) { T v = (T) (rng.range(-4, 4) * 0.5); if (nonZero && v == 0) v = (T) 2; if (!nonZero && rng.chance(200)) v = 0; return v; }
        else { T v = (T) rng.range(-3, 3); if (nonZero && v == 0) v = 1; return v; }
    }

    void beginOp(const char *o) {
        site = o;
        ++C.opCount[o];
        ++C.ops;
        for (auto &s : subs) { s.callsThisOp = 0; s.refOk = true; }
    }

    // expectNotify: whether every live subscriber must have been called exactly once with `model`
    void endOp(bool expectNotify) {
        if (gCaseFailed) return;
        const T &real = obs->value();
        if (!bitEqual(real, model))
            return fail("wrong-value", site, std::string(site) + ": value() = " + show(real) + ", model " + show(model));
        if (!bitEqual(**obs, model) || &obs->value() != &**obs) return fail("wrong-value", site, "operator* disagrees with value()");
        if (expectNotify) ++C.changed; else ++C.unchanged;
        for (int i = 0; i < 4; ++i) {
            SubRec &s = subs[i];
            if (!s.live) {
                if (s.callsThisOp) return fail("notified-after-unsubscribe", site, "unsubscribed subscriber " + std::to_string(i) + " was called");
                continue;
            }
            if (expectNotify) {
                if (s.callsThisOp != 1) return fail(s.callsThisOp ? "notified-twice" : "missing-notification", site, std::string(site) + " changed the value to " + show(model) + " but subscriber " + std::to_string(i) + " was called " + std::to_string(s.callsThisOp) + " time(s)");
                if (!bitEqual(s.seenThisOp, model)) return fail("stale-value-notified", site, "subscriber " + std::to_string(i) + " was notified with " + show(s.seenThisOp) + ", the post-operation value is " + show(model));
                if (!s.refOk) return fail("stale-value-notified", site, "while subscriber " + std::to_string(i) + " was being notified, value() did not yet show the value it was notified with");
            } else if (s.callsThisOp) {
                return fail("spurious-notification", site, std::string(site) + " left the value unchanged (" + show(model) + ") but subscriber " + std::to_string(i) + " was called with " + show(s.seenThisOp));
            }
            if constexpr (kDefaultEq)
                if (!bitEqual(s.lastSeen, real) && !(s.lastSeen == real))
                    return fail("recorder-out-of-date", site, "a recording subscriber holds " + show(s.lastSeen) + " but value() is " + show(real));
        }
    }

    template<class V> void assignOther(V v) {
        T conv = static_cast<T>(v);
        bool ch = !eq(model, conv);
        log("=(" + std::string(typeid(V).name()) + ")" + show((double) v));
        *obs = v;
        if (ch) model = conv;
        endOp(ch);
    }

    void subscribe(int i) {
        SubRec &s = subs[i];
        beginOp("subscribe");
        log("sub" + std::to_string(i));
        // the statement promises the post-operation VALUE, not a reference to the held object: take it as const T&
        s.handle = obs->subscribe([this, i](const T &v) {
            SubRec &me = subs[i];
            ++me.callsThisOp;
            ++C.calls;
            me.seenThisOp = v;
            me.lastSeen = v;
            // what value() shows during the notification must already be the new value
            if (!bitEqual(obs->value(), v)) me.refOk = false;
        });
        s.live = true;
        s.lastSeen = obs->value();
        ++C.subs;
        endOp(false);
    }
    void unsubscribe(int i) {
        beginOp("unsubscribe");
        log("unsub" + std::to_string(i));
        subs[i].handle.unsubscribe();
        subs[i].live = false;
        ++C.unsubs;
        endOp(false);
    }

    void keepInRange() {
        if constexpr (!kString) {
            const double limit = kFloat ? 1e17 : 1e5;   // integers must stay clear of overflow; floats may sit where +1 is absorbed
            if (std::fabs((double) model) > limit || (kFloat && std::fabs((double) model) < 1e-4 && model != 0)) {
                T v = randomValue();
                bool ch = !eq(model, v);
                beginOp("assign");
                log("=" + show(v));
                *obs = v;
                if (ch) model = v;
                endOp(ch);
            }
        } else if (model.size() > 400) {
            beginOp("assign");
            log("=''");
            bool ch = !eq(model, std::string());
            *obs = std::string();
            if (ch) model.clear();
            endOp(ch);
        }
    }

    void step() {
        unsigned r = (unsigned) rng.below(1000), acc = 0;
        auto in = [&](unsigned w) { acc += w; return r < acc; };
        if (in(90)) { int i = (int) rng.below(4); if (!subs[i].live) subscribe(i); else unsubscribe(i); return; }
        if (in(250)) {
            // assignment: often the same value again, or (tolerance comparator) a value within the tolerance
            T v = rng.chance(350) ? model : randomValue();
            bool ch = !eq(model, v);
            if (!ch && !bitEqual(model, v)) ++C.eqEqualButDifferent;
            beginOp(ch ? "assign-changing" : "assign-equal");
            log("=" + show(v));
            if (rng.chance(500)) *obs = v; else { T tmp = v; *obs = std::move(tmp); }
            if (ch) model = v;       // an Eq-equal assignment leaves the stored value untouched
            endOp(ch);
            return;
        }
        if constexpr (!kString) {
            if (in(50)) {
                // compound assignment with an operand of another arithmetic type: same usual arithmetic conversions as for a plain T
                T old = model;
                unsigned k = (unsigned) rng.below(6);
                if (sizeof(T) == 1 && k != 2) k = 5;   // a floating operand could leave the range of an 8-bit value: that conversion is undefined
                beginOp("compound-other-type");
                if (k == 0) { double x = 1.5; log("+=(d)1.5"); *obs += x; model += x; }
                else if (k == 1) { double x = 0.25; log("-=(d)0.25"); *obs -= x; model -= x; }
                else if (k == 2) { short x = (short) rng.range(-2, 2); log("+=(s)" + std::to_string(x)); *obs += x; model += x; }
                else if (k == 3) { float x = 1.5f; log("*=(f)1.5"); *obs *= x; model *= x; }
                else if (k == 4) { double x = 2.0; log("/=(d)2"); *obs /= x; model /= x; }
                else { long long x = 0; log("+=(ll)0"); *obs += x; model += x; }
                endOp(!eq(old, model));
                return;
            }
            if (in(70)) {
                // assignment from another arithmetic type: the decision is made on the value converted to T
                unsigned k = (unsigned) rng.below(4);
                if (sizeof(T) == 1 && k < 2) k += 2;   // only integral sources for an 8-bit value (out-of-range floating conversions are undefined)
                beginOp("assign-other-type");
                if (k == 0) { double v = (double) model + (rng.chance(500) ? 0.5 : 0.0) + (rng.chance(300) ? 1.0 : 0.0); assignOther(v); }
                else if (k == 1) { float v = rng.chance(500) ? (float) model : 0.1f * (float) rng.range(-9, 9); assignOther(v); }
                else if (k == 2) { long long v = rng.chance(500) ? (long long) model : rng.range(-6, 6); assignOther(v); }
                else { short v = (short) rng.range(-6, 6); assignOther(v); }
                return;
            }
        } else {
            if (in(70)) {
                beginOp("assign-other-type");
                const char *lit = rng.chance(500) ? "ab" : "";
                bool ch = !eq(model, std::string(lit));
                log(std::string("=lit'") + lit + "'");
                *obs = lit;
                if (ch) model = lit;
                endOp(ch);
                return;
            }
        }
        if (in(130)) {
            T old = model;
            T add = operand(false);
            bool zeroOp = rng.chance(300);
            beginOp("apply");
            log(zeroOp ? "apply(nop)" : "apply(+" + show(add) + ")");
            obs->apply([&](T &v) { if (!zeroOp) v += add; });
            if (!zeroOp) model += add;
            endOp(!eq(old, model));
            return;
        }
        if (in(120)) { T old = model, x = operand(false); beginOp("+="); log("+=" + show(x)); *obs += x; model += x; endOp(!eq(old, model)); return; }
        if constexpr (!kString) {
            if (in(100)) { T old = model, x = operand(false); beginOp("-="); log("-=" + show(x)); *obs -= x; model -= x; endOp(!eq(old, model)); return; }
            if (in(80)) { T old = model, x = operand(false); if (rng.chance(300)) x = 1; beginOp("*="); log("*=" + show(x)); *obs *= x; model *= x; endOp(!eq(old, model)); return; }
            if (in(70)) { T old = model, x = operand(true); if (rng.chance(300)) x = 1; beginOp("/="); log("/=" + show(x)); *obs /= x; model /= x; endOp(!eq(old, model)); return; }
            if (in(40)) { beginOp("++pre"); log("++x"); T &ret = ++*obs; ++model; if (&ret != &obs->value()) fail("wrong-value", site, "prefix ++ did not return the held value"); endOp(true); return; }
            if (in(40)) { beginOp("post++"); log("x++"); T old = model; T ret = (*obs)++; ++model; if (!bitEqual(ret, old)) fail("wrong-value", site, "postfix ++ returned " + show(ret) + " instead of the previous value " + show(old)); endOp(true); return; }
            if (in(40)) { beginOp("--pre"); log("--x"); T &ret = --*obs; --model; if (&ret != &obs->value()) fail("wrong-value", site, "prefix -- did not return the held value"); endOp(true); return; }
            if (in(40)) { beginOp("post--"); log("x--"); T old = model; T ret = (*obs)--; --model; if (!bitEqual(ret, old)) fail("wrong-value", site, "postfix -- returned " + show(ret) + " instead of the previous value " + show(old)); endOp(true); return; }
        }
    }

    void run(int steps) {
        model = randomValue();
        if constexpr (std::is_same_v<Eq, Tol>) {
            // a tolerance below and one above the step of ++/--: "increment and decrement always notify"
            eq = Tol{rng.chance(500) ? 0.5 : 2.5};
            obs.reset(new Obs(model, eq));
            log(eq.eps > 1 ? "eps2.5" : "eps0.5");
        }
        else obs.reset(new Obs(model));
        // An Observable handed around before anybody subscribed (returned from a factory, stored in a container):
        // value and equality travel with it.
        unsigned mv = (unsigned) rng.below(10);
        if (mv < 2) { log("move-constructed"); Obs tmp(std::move(*obs)); obs.reset(new Obs(std::move(tmp))); ++C.movedBeforeUse; }
        else if (mv == 2) { log("move-assigned"); std::unique_ptr<Obs> other; if constexpr (std::is_same_v<Eq, Tol>) other.reset(new Obs(randomValue(), Tol{7.0})); else other.reset(new Obs(randomValue())); *other = std::move(*obs); obs = std::move(other); ++C.movedBeforeUse; }
        log("init" + show(model));
        for (int st = 0; st < steps && !gCaseFailed; ++st) {
            rt::crumb("observable step %d: %s", st, gHist.size() > 170 ? gHist.c_str() + gHist.size() - 170 : gHist.c_str());
            step();
            if (!gCaseFailed) keepInRange();
        }
        int live = 0;
        for (auto &s : subs) live += s.live;
        nontrivial = live > 0 || C.subs > 0;
        if (gCaseFailed) (void) obs.release();
    }
};

template<class T, class Eq, bool kDefaultEq>
void runCase(uint64_t seed, int steps, const char *name) {
    auto *r = new Runner<T, Eq, kDefaultEq>(seed);
    uint64_t changedBefore = C.changed;
    r->run(steps);
    ++C.histories;
    ++C.typeCount[name];
    if (C.changed > changedBefore) {
        ++C.nontrivialCases;
        C.fps.push_back(r->hist.get());
        if (C.samples.size() < 5 && gHist.size() < 500) C.samples.push_back(rt::Json().kv("type", name).kv("history", gHist).str());
    }
    if (!gCaseFailed) delete r;
}


// A subscriber that corrects the value from inside its callback (clamping) plus recorders subscribed after it.
// Whatever the nesting of notifications, when the operation has returned value() is the clamped value and every
// recorder holds it ("a subscriber that records notifications therefore always holds the current value()").
void runClampCase(uint64_t seed, int steps) {
    rt::Rng rng(seed);
    gHist = "clamp-history: ";
    Observable<int> level{0};
    const int limit = (int) rng.range(5, 15);
    int corrections = 0;
    auto clampSub = level.subscribe([&](const int &v) { if (v > limit) { ++corrections; level = limit; } });
    struct Rec { int last = 0; int calls = 0; };
    Rec recs[3];
    std::vector<decltype(level.subscribe([](const int &) {}))> handles;
    int nRec = (int) rng.range(1, 3);
    for (int i = 0; i < nRec; ++i) handles.push_back(level.subscribe([&recs, i](const int &v) { recs[i].last = v; ++recs[i].calls; }));
    int model = 0;
    for (int st = 0; st < steps && !gCaseFailed; ++st) {
        int before = model;
        unsigned k = (unsigned) rng.below(5);
        int x = (int) rng.range(-10, 30);
        const char *site;
        if (k == 0) { site = "clamp-assign"; gHist += "=" + std::to_string(x) + " "; level = x; model = x; }
        else if (k == 1) { site = "clamp-+="; int d = (int) rng.range(-8, 12); gHist += "+=" + std::to_string(d) + " "; level += d; model += d; }
        else if (k == 2) { site = "clamp-++"; gHist += "++ "; ++level; ++model; }
        else if (k == 3) { site = "clamp---"; gHist += "-- "; level--; --model; }
        else { site = "clamp-apply"; int d = (int) rng.range(0, 9); gHist += "apply(+" + std::to_string(d) + ") "; level.apply([d](int &v) { v += d; }); model += d; }
        if (model > limit) model = limit;
        ++C.ops;
        if (level.value() != model) return fail("wrong-value", site, "value() = " + std::to_string(level.value()) + " after an operation whose clamped result is " + std::to_string(model));
        bool notified = model != before || k == 2 || k == 3;
        for (int i = 0; i < nRec && notified; ++i)
            if (recs[i].calls && recs[i].last != level.value())
                return fail("recorder-out-of-date", site, "recorder " + std::to_string(i) + " (subscribed after a correcting subscriber) holds " + std::to_string(recs[i].last) + " but value() is " + std::to_string(level.value()));
    }
    ++C.clampHistories;
    C.clampCorrections += (uint64_t) corrections;
    ++C.histories;
    ++C.typeCount["int with a re-entrant clamping subscriber"];
}

} // namespace

int main(int argc, char **argv) {
    rt::init(argc, argv);
    int maxSteps = (int) rt::optInt("steps", 80);
    for (uint64_t c = rt::st().from; c < rt::st().from + rt::st().count; ++c) {
        rt::setCase(c);
        rt::Rng rng(rt::mix(rt::st().seed, c));
        gHist.clear();
        gCaseFailed = false;
        int steps = (int) (rng.chance(250) ? rng.range(1, 10) : rng.range(10, maxSteps));
        uint64_t s = rng.next();
        if (rng.chance(120)) { runClampCase(s, steps); continue; }
        switch (rng.below(6)) {
            case 0: runCase<int, std::equal_to<int>, true>(s, steps, "int"); break;
            case 1: runCase<long, std::equal_to<long>, true>(s, steps, "long"); break;
            case 2: runCase<double, Tol, false>(s, steps, "double, tolerance 0.5"); break;
            case 3: runCase<float, std::equal_to<float>, true>(s, steps, "float"); break;
            case 4: runCase<unsigned char, std::equal_to<unsigned char>, true>(s, steps, "unsigned char"); break;
            default: runCase<std::string, std::equal_to<std::string>, true>(s, steps, "std::string"); break;
        }
    }
    rt::dumpFingerprints(C.fps);
    rt::finish(rt::Json().kv("engine", "h_observable").kv("histories", C.histories).kv("ops", C.ops).kv("changingOps", C.changed)
                   .kv("nonChangingOps", C.unchanged).kv("subscriberCalls", C.calls).kv("subscribes", C.subs).kv("unsubscribes", C.unsubs)
                   .kv("eqEqualButDifferentAssignments", C.eqEqualButDifferent).kv("observablesMovedBeforeUse", C.movedBeforeUse).kv("reentrantClampHistories", C.clampHistories).kv("reentrantCorrections", C.clampCorrections).kv("nontrivialCases", C.nontrivialCases)
                   .raw("opCount", rt::jsonCounts(C.opCount)).raw("types", rt::jsonCounts(C.typeCount)).raw("samples", rt::jsonArray(C.samples, false)));
    return 0;
}
