// Engine for C16: Observable notifies exactly on change, with the new value.
// A model value of the same C++ type with the same Eq runs in lock-step; after
// every operation the subscriber call log, the received values/references and
// the stored value are compared.
#include "../rt/rt.h"

#include <tulz/observer/Observable.h>

#include <cmath>
#include <typeinfo>
#include <memory>

using namespace tulz;

namespace {

struct Cover {
    uint64_t movedBeforeUse = 0, clampHistories = 0, clampCorrections = 0, longLifeCycles = 0, throwingSubscriberRuns = 0, unsubscribeInCallbackRuns = 0, chainedRuns = 0, nestedOperationRuns = 0;
    uint64_t histories = 0, ops = 0, changed = 0, unchanged = 0, calls = 0, subs = 0, unsubs = 0, nontrivialCases = 0, eqEqualButDifferent = 0;
    std::map<std::string, uint64_t> opCount, typeCount;
    std::vector<uint64_t> fps;
    std::vector<std::string> samples;
} C;

std::string gHist;
bool gCaseFailed = false;

void fail(const char *rule, const char *site, const std::string &d) {
    gCaseFailed = true;
    rt::violation("C16", rule, site, d + " | history: " + (gHist.size() > 1400 ? "..." + gHist.substr(gHist.size() - 1400) : gHist));
}

struct Tol {
    double eps = 0.5;
    bool operator()(const double &a, const double &b) const { return std::fabs(a - b) <= eps; }
};

template<class T> std::string show(const T &v) {
    if constexpr (std::is_same_v<T, std::string>) return "'" + v + "'";
    else if constexpr (std::is_floating_point_v<T>) { char b[48]; snprintf(b, sizeof b, "%.9g", (double) v); return b; }
    else return std::to_string(v);
}
template<class T> bool bitEqual(const T &a, const T &b) {
    if constexpr (std::is_same_v<T, std::string>) return a == b;
    else return memcmp(&a, &b, sizeof(T)) == 0;
}

template<class T, class Eq, bool kDefaultEq>
struct Runner {
    // default equality is taken from the library's own default template argument, not spelled out here
    using Obs = std::conditional_t<kDefaultEq, Observable<T>, Observable<T, Eq>>;
    static constexpr bool kString = std::is_same_v<T, std::string>;
    static constexpr bool kFloat = std::is_floating_point_v<T>;

    struct SubRec {
        bool live = false;
        decltype(std::declval<Obs &>().subscribe(std::declval<void (*)(const T &)>())) handle;
        T lastSeen{};
        int callsThisOp = 0;
        T seenThisOp{};
        bool refOk = true;
    };

    std::unique_ptr<Obs> obs;
    T model{};
    Eq eq{};
    SubRec subs[4];
    rt::Rng rng;
    rt::Hash hist;
    bool nontrivial = false;
    const char *site = "";

    Runner(uint64_t seed) : rng(seed) {}

    void log(const std::string &t) {
        gHist += t;
        gHist += ' ';
        for (char c : t) hist.add((uint64_t) c);
    }
    T randomValue() {
        if constexpr (kString) {
            static const char *w[] = {"", "a", "b", "ab", "a-string-that-does-not-fit-the-small-buffer-optimisation", "zz"};
            return w[rng.below(6)];
        } else if constexpr (kFloat) {
            // sometimes a magnitude at which +1 / -1 is absorbed by rounding (float: 2^24, double: 2^53)
            if (rng.chance(60)) return (T) (std::is_same_v<T, float> ? 16777216.0 : 9007199254740992.0) * (rng.chance(500) ? 1 : -1);
            // values close to each other so that the tolerance comparator is exercised on both sides
            return (T) (rng.range(-8, 8) * 0.25 + (rng.chance(300) ? 0.125 : 0.0));
        } else return (T) rng.range(-6, 6);
    }
    T operand(bool nonZero) {
        if constexpr (kString) return randomValue();
        else if constexpr (kFloat) { T v = (T) (rng.range(-4, 4) * 0.5); if (nonZero && v == 0) v = (T) 2; if (!nonZero && rng.chance(200)) v = 0; return v; }
        else { T v = (T) rng.range(-3, 3); if (nonZero && v == 0) v = 1; return v; }
    }

    void beginOp(const char *o) {
        site = o;
        ++C.opCount[o];
        ++C.ops;
        for (auto &s : subs) { s.callsThisOp = 0; s.refOk = true; }
    }

    // expectNotify: whether every live subscriber must have been called exactly once with `model`
    void endOp(bool expectNotify) {
        if (gCaseFailed) return;
        const T &real = obs->value();
        if (!bitEqual(real, model))
            return fail("wrong-value", site, std::string(site) + ": value() = " + show(real) + ", model " + show(model));
        if (!bitEqual(**obs, model) || &obs->value() != &**obs) return fail("wrong-value", site, "operator* disagrees with value()");
        if (expectNotify) ++C.changed; else ++C.unchanged;
        for (int i = 0; i < 4; ++i) {
            SubRec &s = subs[i];
            if (!s.live) {
                if (s.callsThisOp) return fail("notified-after-unsubscribe", site, "unsubscribed subscriber " + std::to_string(i) + " was called");
                continue;
            }
            if (expectNotify) {
                if (s.callsThisOp != 1) return fail(s.callsThisOp ? "notified-twice" : "missing-notification", site, std::string(site) + " changed the value to " + show(model) + " but subscriber " + std::to_string(i) + " was called " + std::to_string(s.callsThisOp) + " time(s)");
                if (!bitEqual(s.seenThisOp, model)) return fail("stale-value-notified", site, "subscriber " + std::to_string(i) + " was notified with " + show(s.seenThisOp) + ", the post-operation value is " + show(model));
                if (!s.refOk) return fail("stale-value-notified", site, "while subscriber " + std::to_string(i) + " was being notified, value() did not yet show the value it was notified with");
            } else if (s.callsThisOp) {
                return fail("spurious-notification", site, std::string(site) + " left the value unchanged (" + show(model) + ") but subscriber " + std::to_string(i) + " was called with " + show(s.seenThisOp));
            }
            if constexpr (kDefaultEq)
                if (!bitEqual(s.lastSeen, real) && !(s.lastSeen == real))
                    return fail("recorder-out-of-date", site, "a recording subscriber holds " + show(s.lastSeen) + " but value() is " + show(real));
        }
    }

    template<class V> void assignOther(V v) {
        T conv = static_cast<T>(v);
        bool ch = !eq(model, conv);
        log("=(" + std::string(typeid(V).name()) + ")" + show((double) v));
        *obs = v;
        if (ch) model = conv;
        endOp(ch);
    }

    void subscribe(int i) {
        SubRec &s = subs[i];
        beginOp("subscribe");
        log("sub" + std::to_string(i));
        // the statement promises the post-operation VALUE, not a reference to the held object: take it as const T&
        s.handle = obs->subscribe([this, i](const T &v) {
            SubRec &me = subs[i];
            ++me.callsThisOp;
            ++C.calls;
            me.seenThisOp = v;
            me.lastSeen = v;
            // what value() shows during the notification must already be the new value
            if (!bitEqual(obs->value(), v)) me.refOk = false;
        });
        s.live = true;
        s.lastSeen = obs->value();
        ++C.subs;
        endOp(false);
    }
    void unsubscribe(int i) {
        beginOp("unsubscribe");
        log("unsub" + std::to_string(i));
        subs[i].handle.unsubscribe();
        subs[i].live = false;
        ++C.unsubs;
        endOp(false);
    }

    void keepInRange() {
        if constexpr (!kString) {
            const double limit = kFloat ? 1e17 : 1e5;   // integers must stay clear of overflow; floats may sit where +1 is absorbed
            if (std::fabs((double) model) > limit || (kFloat && std::fabs((double) model) < 1e-4 && model != 0)) {
                T v = randomValue();
                bool ch = !eq(model, v);
                beginOp("assign");
                log("=" + show(v));
                *obs = v;
                if (ch) model = v;
                endOp(ch);
            }
        } else if (model.size() > 400) {
            beginOp("assign");
            log("=''");
            bool ch = !eq(model, std::string());
            *obs = std::string();
            if (ch) model.clear();
            endOp(ch);
        }
    }

    void step() {
        unsigned r = (unsigned) rng.below(1120), acc = 0;   // the weights below add up to 1120 (arithmetic types; strings fall through for the rest)
        auto in = [&](unsigned w) { acc += w; return r < acc; };
        if (in(90)) { int i = (int) rng.below(4); if (!subs[i].live) subscribe(i); else unsubscribe(i); return; }
        if (in(250)) {
            // assignment: often the same value again, or (tolerance comparator) a value within the tolerance
            T v = rng.chance(350) ? model : randomValue();
            bool ch = !eq(model, v);
            if (!ch && !bitEqual(model, v)) ++C.eqEqualButDifferent;
            beginOp(ch ? "assign-changing" : "assign-equal");
            log("=" + show(v));
            if (rng.chance(500)) *obs = v; else { T tmp = v; *obs = std::move(tmp); }
            if (ch) model = v;       // an Eq-equal assignment leaves the stored value untouched
            endOp(ch);
            return;
        }
        if constexpr (!kString) {
            if (in(50)) {
                // compound assignment with an operand of another arithmetic type: same usual arithmetic conversions as for a plain T
                T old = model;
                unsigned k = (unsigned) rng.below(6);
                if (sizeof(T) == 1 && k != 2) k = 5;   // a floating operand could leave the range of an 8-bit value: that conversion is undefined
                beginOp("compound-other-type");
                if (k == 0) { double x = 1.5; log("+=(d)1.5"); *obs += x; model += x; }
                else if (k == 1) { double x = 0.25; log("-=(d)0.25"); *obs -= x; model -= x; }
                else if (k == 2) { short x = (short) rng.range(-2, 2); log("+=(s)" + std::to_string(x)); *obs += x; model += x; }
                else if (k == 3) { float x = 1.5f; log("*=(f)1.5"); *obs *= x; model *= x; }
                else if (k == 4) { double x = 2.0; log("/=(d)2"); *obs /= x; model /= x; }
                else { long long x = 0; log("+=(ll)0"); *obs += x; model += x; }
                endOp(!eq(old, model));
                return;
            }
            if (in(70)) {
                // assignment from another arithmetic type: the decision is made on the value converted to T
                unsigned k = (unsigned) rng.below(4);
                if (sizeof(T) == 1 && k < 2) k += 2;   // only integral sources for an 8-bit value (out-of-range floating conversions are undefined)
                beginOp("assign-other-type");
                if (k == 0) { double v = (double) model + (rng.chance(500) ? 0.5 : 0.0) + (rng.chance(300) ? 1.0 : 0.0); assignOther(v); }
                else if (k == 1) { float v = rng.chance(500) ? (float) model : 0.1f * (float) rng.range(-9, 9); assignOther(v); }
                else if (k == 2) { long long v = rng.chance(500) ? (long long) model : rng.range(-6, 6); assignOther(v); }
                else { short v = (short) rng.range(-6, 6); assignOther(v); }
                return;
            }
        } else {
            if (in(70)) {
                beginOp("assign-other-type");
                const char *lit = rng.chance(500) ? "ab" : "";
                bool ch = !eq(model, std::string(lit));
                log(std::string("=lit'") + lit + "'");
                *obs = lit;
                if (ch) model = lit;
                endOp(ch);
                return;
            }
        }
        if (in(130)) {
            T old = model;
            T add = operand(false);
            bool zeroOp = rng.chance(300);
            beginOp("apply");
            log(zeroOp ? "apply(nop)" : "apply(+" + show(add) + ")");
            obs->apply([&](T &v) { if (!zeroOp) v += add; });
            if (!zeroOp) model += add;
            endOp(!eq(old, model));
            return;
        }
        if (in(120)) { T old = model, x = operand(false); beginOp("+="); log("+=" + show(x)); *obs += x; model += x; endOp(!eq(old, model)); return; }
        if constexpr (!kString) {
            if (in(100)) { T old = model, x = operand(false); beginOp("-="); log("-=" + show(x)); *obs -= x; model -= x; endOp(!eq(old, model)); return; }
            if (in(80)) { T old = model, x = operand(false); if (rng.chance(300)) x = 1; beginOp("*="); log("*=" + show(x)); *obs *= x; model *= x; endOp(!eq(old, model)); return; }
            if (in(70)) { T old = model, x = operand(true); if (rng.chance(300)) x = 1; beginOp("/="); log("/=" + show(x)); *obs /= x; model /= x; endOp(!eq(old, model)); return; }
            if (in(40)) { beginOp("++pre"); log("++x"); T &ret = ++*obs; ++model; if (&ret != &obs->value()) fail("wrong-value", site, "prefix ++ did not return the held value"); endOp(true); return; }
            if (in(40)) { beginOp("post++"); log("x++"); T old = model; T ret = (*obs)++; ++model; if (!bitEqual(ret, old)) fail("wrong-value", site, "postfix ++ returned " + show(ret) + " instead of the previous value " + show(old)); endOp(true); return; }
            if (in(40)) { beginOp("--pre"); log("--x"); T &ret = --*obs; --model; if (&ret != &obs->value()) fail("wrong-value", site, "prefix -- did not return the held value"); endOp(true); return; }
            if (in(40)) { beginOp("post--"); log("x--"); T old = model; T ret = (*obs)--; --model; if (!bitEqual(ret, old)) fail("wrong-value", site, "postfix -- returned " + show(ret) + " instead of the previous value " + show(old)); endOp(true); return; }
        }
    }

    void run(int steps) {
        model = randomValue();
        if constexpr (std::is_same_v<Eq, Tol>) {
            // a tolerance below and one above the step of ++/--: "increment and decrement always notify"
            eq = Tol{rng.chance(500) ? 0.5 : 2.5};
            obs.reset(new Obs(model, eq));
            log(eq.eps > 1 ? "eps2.5" : "eps0.5");
        }
        else obs.reset(new Obs(model));
        // An Observable handed around before anybody subscribed (returned from a factory, stored in a container):
        // value and equality travel with it.
        unsigned mv = (unsigned) rng.below(10);
        if (mv < 2) { log("move-constructed"); Obs tmp(std::move(*obs)); obs.reset(new Obs(std::move(tmp))); ++C.movedBeforeUse; }
        else if (mv == 2) { log("move-assigned"); std::unique_ptr<Obs> other; if constexpr (std::is_same_v<Eq, Tol>) other.reset(new Obs(randomValue(), Tol{7.0})); else other.reset(new Obs(randomValue())); *other = std::move(*obs); obs = std::move(other); ++C.movedBeforeUse; }
        log("init" + show(model));
        for (int st = 0; st < steps && !gCaseFailed; ++st) {
            rt::crumb("observable step %d: %s", st, gHist.size() > 170 ? gHist.c_str() + gHist.size() - 170 : gHist.c_str());
            step();
            if (!gCaseFailed) keepInRange();
        }
        int live = 0;
        for (auto &s : subs) live += s.live;
        nontrivial = live > 0 || C.subs > 0;
        if (gCaseFailed) (void) obs.release();
    }
};

template<class T, class Eq, bool kDefaultEq>
void runCase(uint64_t seed, int steps, const char *name) {
    auto *r = new Runner<T, Eq, kDefaultEq>(seed);
    uint64_t changedBefore = C.changed;
    r->run(steps);
    ++C.histories;
    ++C.typeCount[name];
    if (C.changed > changedBefore) {
        ++C.nontrivialCases;
        C.fps.push_back(r->hist.get());
        if (C.samples.size() < 5 && gHist.size() < 500) C.samples.push_back(rt::Json().kv("type", name).kv("history", gHist).str());
    }
    if (!gCaseFailed) delete r;
}


// A subscriber that corrects the value from inside its callback (clamping) plus recorders subscribed after it.
// Whatever the nesting of notifications, when the operation has returned value() is the clamped value and every
// recorder holds it ("a subscriber that records notifications therefore always holds the current value()").
void runClampCase(uint64_t seed, int steps) {
    rt::Rng rng(seed);
    gHist = "clamp-history: ";
    Observable<int> level{0};
    const int limit = (int) rng.range(5, 15);
    int corrections = 0;
    auto clampSub = level.subscribe([&](const int &v) { if (v > limit) { ++corrections; level = limit; } });
    struct Rec { int last = 0; int calls = 0; };
    Rec recs[3];
    std::vector<decltype(level.subscribe([](const int &) {}))> handles;
    int nRec = (int) rng.range(1, 3);
    for (int i = 0; i < nRec; ++i) handles.push_back(level.subscribe([&recs, i](const int &v) { recs[i].last = v; ++recs[i].calls; }));
    int model = 0;
    for (int st = 0; st < steps && !gCaseFailed; ++st) {
        int before = model;
        unsigned k = (unsigned) rng.below(5);
        int x = (int) rng.range(-10, 30);
        const char *site;
        if (k == 0) { site = "clamp-assign"; gHist += "=" + std::to_string(x) + " "; level = x; model = x; }
        else if (k == 1) { site = "clamp-+="; int d = (int) rng.range(-8, 12); gHist += "+=" + std::to_string(d) + " "; level += d; model += d; }
        else if (k == 2) { site = "clamp-++"; gHist += "++ "; ++level; ++model; }
        else if (k == 3) { site = "clamp---"; gHist += "-- "; level--; --model; }
        else { site = "clamp-apply"; int d = (int) rng.range(0, 9); gHist += "apply(+" + std::to_string(d) + ") "; level.apply([d](int &v) { v += d; }); model += d; }
        if (model > limit) model = limit;
        ++C.ops;
        if (level.value() != model) return fail("wrong-value", site, "value() = " + std::to_string(level.value()) + " after an operation whose clamped result is " + std::to_string(model));
        bool notified = model != before || k == 2 || k == 3;
        for (int i = 0; i < nRec && notified; ++i)
            if (recs[i].calls && recs[i].last != level.value())
                return fail("recorder-out-of-date", site, "recorder " + std::to_string(i) + " (subscribed after a correcting subscriber) holds " + std::to_string(recs[i].last) + " but value() is " + std::to_string(level.value()));
    }
    ++C.clampHistories;
    C.clampCorrections += (uint64_t) corrections;
    ++C.histories;
    ++C.typeCount["int with a re-entrant clamping subscriber"];
}


// Fixed-answer scenarios for sizes and situations the random histories do not reach:
// (0) one Observable lives through more than 2^16 / 2^17 subscriptions while a resident recorder stays subscribed;
// (1) a subscriber that throws from its callback: the exception reaches the caller of the operation, and a recorder
//     that was notified before it still holds the current value();
// (2) a subscriber that unsubscribes a later one from inside its callback: the later one is not notified any more.
void runSpecialCase(rt::Rng rng) {
    using Obs = Observable<int>;
    unsigned kind = (unsigned) rng.below(5);
    char d[200];
    struct Rec { int last = -1; int calls = 0; };
    if (kind == 0) {
        static const int64_t sizes[] = {65537, 66000, 70000, 131100, 140000};
        int64_t n = rng.chance(400) ? (int64_t) rng.range(300, 3000) : sizes[rng.below(5)];
        snprintf(d, sizeof d, "long life: %lld subscribe/unsubscribe cycles on one Observable<int> next to a resident recorder", (long long) n);
        gHist = d;
        Obs level{0};
        Rec res, tmp;
        auto resident = level.subscribe([&res](const int &v) { res.last = v; ++res.calls; });
        int model = 0;
        for (int64_t k = 0; k < n && !gCaseFailed; ++k) {
            auto t = level.subscribe([&tmp](const int &v) { tmp.last = v; ++tmp.calls; });
            bool look = k < 3 || (k & (k + 1)) == 0 || (k >= 65530 && k <= 65540) || (k >= 131066 && k <= 131076) || rng.chance(2);
            if (look) {
                res.calls = tmp.calls = 0;
                level = ++model;
                if (res.calls != 1 || tmp.calls != 1 || res.last != model || tmp.last != model) { fail("long-life-notification", "cycle", std::string(d) + ": at cycle " + std::to_string(k) + " a changing assignment notified the resident " + std::to_string(res.calls) + " and the newcomer " + std::to_string(tmp.calls) + " time(s)"); break; }
            }
            t.unsubscribe();
            if (look || k + 1 == n) {
                res.calls = tmp.calls = 0;
                level += 1; ++model;
                if (res.calls != 1 || tmp.calls != 0 || res.last != model || level.value() != model || !resident.isValid()) { fail("long-life-notification", "cycle", std::string(d) + ": after the newcomer of cycle " + std::to_string(k) + " unsubscribed, += notified the resident " + std::to_string(res.calls) + " time(s) (handle valid: " + std::to_string(resident.isValid()) + ")"); break; }
            }
        }
        C.longLifeCycles += (uint64_t) n;
        C.ops += (uint64_t) n;
    } else if (kind == 1) {
        struct Boom {};
        Obs level{5};
        Rec r1, r2;
        bool armed = false;
        auto s1 = level.subscribe([&r1](const int &v) { r1.last = v; ++r1.calls; });
        auto st = level.subscribe([&armed](const int &) { if (armed) throw Boom{}; });
        auto s2 = level.subscribe([&r2](const int &v) { r2.last = v; ++r2.calls; });
        int model = 5;
        gHist = "throwing subscriber between two recorders: ";
        int steps = (int) rng.range(2, 10);
        for (int k = 0; k < steps && !gCaseFailed; ++k) {
            unsigned op = (unsigned) rng.below(8);
            int x = (int) rng.range(2, 9);
            armed = rng.chance(500);
            static const char *names[] = {"=", "+=", "-=", "*=", "apply", "++", "--", "/="};
            gHist += std::string(armed ? "!" : "") + names[op] + std::to_string(x) + " ";
            int want = model;
            bool caught = false;
            r1.calls = r2.calls = 0;
            try {
                switch (op) {
                    case 0: want = model + x; level = want; break;
                    case 1: want = model + x; level += x; break;
                    case 2: want = model - x; level -= x; break;
                    case 3: want = model * 2; level *= 2; break;
                    case 4: want = model + x * 3; level.apply([x](int &v) { v += x * 3; }); break;
                    case 5: want = model + 1; ++level; break;
                    case 6: want = model - 1; level--; break;
                    default: want = model / 2 + 1000; level /= 2; level += 1000; break;   // two operations; the first may be a no-change
                }
            } catch (const Boom &) { caught = true; }
            if (op == 7) {      // outcome depends on which of the two operations threw: resynchronise, judge only consistency
                if (r1.calls && r1.last != level.value()) fail("recorder-out-of-date", "throwing-subscriber", "after an operation during which a later subscriber threw, the first recorder holds " + std::to_string(r1.last) + " but value() is " + std::to_string(level.value()) + " | " + gHist);
                model = level.value();
                if (std::abs(model) > 100000) { armed = false; level = 5; model = 5; }
                continue;
            }
            bool notify = want != model || op == 5 || op == 6;   // a compound assignment that leaves the value unchanged notifies nobody
            if (caught != (armed && notify)) { fail("exception-lost", "throwing-subscriber", std::string(armed ? "a subscriber threw but the operation returned normally" : "the operation threw although no subscriber did") + " | " + gHist); break; }
            if (level.value() != want || r1.calls != (notify ? 1 : 0) || (notify && r1.last != want) || r2.calls != (notify && !armed ? 1 : 0))
                fail(r1.last != level.value() ? "recorder-out-of-date" : "wrong-value", "throwing-subscriber", "operation " + std::string(names[op]) + " on " + std::to_string(model) + (armed ? " (a later subscriber threw)" : "") + ": value() = " + std::to_string(level.value()) +
                     ", expected " + std::to_string(want) + "; the recorder subscribed first was called " + std::to_string(r1.calls) + " time(s) and holds " + std::to_string(r1.last) + "; the one subscribed last was called " + std::to_string(r2.calls) + " time(s) | " + gHist);
            model = want;
            if (std::abs(model) > 100000) { armed = false; level = 5; model = 5; }
            ++C.ops;
        }
        ++C.throwingSubscriberRuns;
    } else if (kind == 3) {
        // two Observables of the same type chained through a subscriber (celsius -> fahrenheit): both notify completely
        Obs a{0}, b{0};
        Rec a1, a3, b1, b2;
        auto s1 = a.subscribe([&a1](const int &v) { a1.last = v; ++a1.calls; });
        auto s2 = a.subscribe([&b](const int &v) { b = v * 2 + 32; });
        auto s3 = a.subscribe([&a3](const int &v) { a3.last = v; ++a3.calls; });
        auto t1 = b.subscribe([&b1](const int &v) { b1.last = v; ++b1.calls; });
        auto t2 = b.subscribe([&b2](const int &v) { b2.last = v; ++b2.calls; });
        gHist = "two Observable<int> chained through a subscriber: ";
        int model = 0, steps = (int) rng.range(2, 8);
        for (int k = 0; k < steps && !gCaseFailed; ++k) {
            int x = model + (int) rng.range(1, 9);
            gHist += "=" + std::to_string(x) + " ";
            a1.calls = a3.calls = b1.calls = b2.calls = 0;
            a = x; model = x;
            int wb = x * 2 + 32;
            if (a1.calls != 1 || a3.calls != 1 || b1.calls != 1 || b2.calls != 1 || a1.last != x || a3.last != x || b1.last != wb || b2.last != wb || a.value() != x || b.value() != wb)
                fail("chained-notification", "chain", "after the first Observable changed to " + std::to_string(x) + " its recorders were called " + std::to_string(a1.calls) + "/" + std::to_string(a3.calls) + " time(s) holding " + std::to_string(a1.last) + "/" + std::to_string(a3.last) +
                     ", the second one's " + std::to_string(b1.calls) + "/" + std::to_string(b2.calls) + " time(s) holding " + std::to_string(b1.last) + "/" + std::to_string(b2.last) + " (expected " + std::to_string(wb) + ") | " + gHist);
            ++C.ops;
        }
        ++C.chainedRuns;
    } else if (kind == 4) {
        // several operations from inside one callback: every operation that changes the value notifies, none is folded away
        Obs o{0};
        Rec r1, r2;
        int extra = (int) rng.range(2, 3);
        bool armed = false;
        auto sa = o.subscribe([&](const int &) { if (armed) { armed = false; for (int i = 0; i < extra; ++i) { if (i & 1) o += 1; else ++o; } } });
        auto s1 = o.subscribe([&r1](const int &v) { r1.last = v; ++r1.calls; });
        auto s2 = o.subscribe([&r2](const int &v) { r2.last = v; ++r2.calls; });
        gHist = "a subscriber performs " + std::to_string(extra) + " changing operations from inside its callback";
        o = 10;
        r1.calls = r2.calls = 0;
        armed = true;
        o = 20;
        int ops = 1 + extra, want = 20 + extra;
        if (o.value() != want || r1.calls != ops || r2.calls != ops || r1.last != want || r2.last != want)
            fail("nested-operations-folded", "callback", gHist + ": value() = " + std::to_string(o.value()) + " (expected " + std::to_string(want) + "), the recorders were notified " + std::to_string(r1.calls) + "/" + std::to_string(r2.calls) +
                 " time(s) for " + std::to_string(ops) + " changing operations and hold " + std::to_string(r1.last) + "/" + std::to_string(r2.last));
        C.ops += (uint64_t) ops;
        ++C.nestedOperationRuns;
    } else {
        Obs level{0};
        Rec ra, rb, rc;
        bool armed = false;
        unsigned victim = (unsigned) rng.below(2);   // 0: the one after the actor (not yet called), 1: the one before it (already called)
        decltype(level.subscribe([](const int &) {})) hFirst, hLast;
        hFirst = level.subscribe([&ra](const int &v) { ra.last = v; ++ra.calls; });
        auto hActor = level.subscribe([&](const int &v) { rb.last = v; ++rb.calls; if (armed) { armed = false; (victim == 0 ? hLast : hFirst).unsubscribe(); } });
        hLast = level.subscribe([&rc](const int &v) { rc.last = v; ++rc.calls; });
        gHist = victim == 0 ? "a subscriber unsubscribes the one subscribed after it from inside its callback" : "a subscriber unsubscribes the one subscribed before it from inside its callback";
        level = 1;
        if (ra.calls != 1 || rb.calls != 1 || rc.calls != 1) fail("wrong-notification-count", "unsubscribe-in-callback", "plain round before the scenario: " + std::to_string(ra.calls) + "/" + std::to_string(rb.calls) + "/" + std::to_string(rc.calls) + " calls | " + gHist);
        ra.calls = rb.calls = rc.calls = 0;
        armed = true;
        if (!gCaseFailed) level += 1;
        int eA = 1, eC = victim == 0 ? 0 : 1;
        if (!gCaseFailed && (ra.calls != eA || rb.calls != 1 || rc.calls != eC))
            fail("notified-after-unsubscribe", "unsubscribe-in-callback", "the round in which the unsubscribe happened called first/actor/last " + std::to_string(ra.calls) + "/" + std::to_string(rb.calls) + "/" + std::to_string(rc.calls) + " time(s), expected " + std::to_string(eA) + "/1/" + std::to_string(eC) + " | " + gHist);
        ra.calls = rb.calls = rc.calls = 0;
        if (!gCaseFailed) ++level;
        eA = victim == 0 ? 1 : 0; eC = victim == 0 ? 0 : 1;
        if (!gCaseFailed && (ra.calls != eA || rb.calls != 1 || rc.calls != eC || (eC && rc.last != 3) || (eA && ra.last != 3) || level.value() != 3))
            fail("notified-after-unsubscribe", "unsubscribe-in-callback", "the following round called first/actor/last " + std::to_string(ra.calls) + "/" + std::to_string(rb.calls) + "/" + std::to_string(rc.calls) + " time(s), expected " + std::to_string(eA) + "/1/" + std::to_string(eC) + " | " + gHist);
        C.ops += 3;
        ++C.unsubscribeInCallbackRuns;
    }
    ++C.histories;
    ++C.typeCount["int, fixed-answer scenario"];
    if (!gCaseFailed) {
        ++C.nontrivialCases;
        rt::Hash h;
        for (char c : gHist) h.add((uint64_t) c);
        C.fps.push_back(h.get());
    }
}

} // namespace

int main(int argc, char **argv) {
    rt::init(argc, argv);
    rt::cpuBudgetPerCase(240);   // single-threaded, deterministic: a case that burns 240 s of CPU time does not terminate
    int maxSteps = (int) rt::optInt("steps", 80);
    for (uint64_t c = rt::st().from; c < rt::st().from + rt::st().count; ++c) {
        rt::setCase(c);
        rt::Rng rng(rt::mix(rt::st().seed, c));
        gHist.clear();
        gCaseFailed = false;
        int steps = (int) (rng.chance(250) ? rng.range(1, 10) : rng.range(10, maxSteps));
        uint64_t s = rng.next();
        if (rng.chance((unsigned) rt::optInt("special", 6))) { runSpecialCase(rng); continue; }
        if (rng.chance(120)) { runClampCase(s, steps); continue; }
        switch (rng.below(6)) {
            case 0: runCase<int, std::equal_to<int>, true>(s, steps, "int"); break;
            case 1: runCase<long, std::equal_to<long>, true>(s, steps, "long"); break;
            case 2: runCase<double, Tol, false>(s, steps, "double, tolerance 0.5"); break;
            case 3: runCase<float, std::equal_to<float>, true>(s, steps, "float"); break;
            case 4: runCase<unsigned char, std::equal_to<unsigned char>, true>(s, steps, "unsigned char"); break;
            default: runCase<std::string, std::equal_to<std::string>, true>(s, steps, "std::string"); break;
        }
    }
    rt::dumpFingerprints(C.fps);
    rt::finish(rt::Json().kv("engine", "h_observable").kv("histories", C.histories).kv("ops", C.ops).kv("changingOps", C.changed)
                   .kv("nonChangingOps", C.unchanged).kv("subscriberCalls", C.calls).kv("subscribes", C.subs).kv("unsubscribes", C.unsubs)
                   .kv("eqEqualButDifferentAssignments", C.eqEqualButDifferent).kv("observablesMovedBeforeUse", C.movedBeforeUse).kv("reentrantClampHistories", C.clampHistories).kv("reentrantCorrections", C.clampCorrections).kv("longLifeCycles", C.longLifeCycles).kv("throwingSubscriberRuns", C.throwingSubscriberRuns).kv("unsubscribeInCallbackRuns", C.unsubscribeInCallbackRuns).kv("chainedObservableRuns", C.chainedRuns).kv("nestedOperationRuns", C.nestedOperationRuns).kv("nontrivialCases", C.nontrivialCases)
                   .raw("opCount", rt::jsonCounts(C.opCount)).raw("types", rt::jsonCounts(C.typeCount)).raw("samples", rt::jsonArray(C.samples, false)));
    return 0;
}
