// Engine for C18: Path agrees with the filesystem, its string operations are
// mutually consistent, DirectoryVisitor restores the working directory.
// Even case indices: a generated tree compared node by node with
// std::filesystem. Odd case indices: a batch of path strings.
#include "../rt/rt.h"

#include <tulz/DirectoryVisitor.h>
#include <tulz/Exception.h>
#include <tulz/Path.h>

#include <algorithm>
#include <filesystem>
#include <fstream>
#include <functional>
#include <set>
#include <unistd.h>

namespace fs = std::filesystem;
using tulz::DirectoryVisitor;
using tulz::Path;

namespace {

struct Cover {
    uint64_t trees = 0, nodes = 0, dirs = 0, files = 0, emptyDirs = 0, queries = 0, missingProbes = 0, relativeQueries = 0, trailingSepQueries = 0;
    uint64_t deepChains = 0, longestCwd = 0, bigDirs = 0, visitorReuses = 0;
    uint64_t strings = 0, identities = 0, absoluteJoins = 0, arbitraryStrings = 0, visitors = 0, nestedVisitors = 0, bytesInFiles = 0, oddNames = 0, nontrivialCases = 0, randomSegments = 0, descriptorChecks = 0, selfVisits = 0, manyEntryDirs = 0;
    std::vector<uint64_t> fps;
    std::vector<std::string> samples;
} C;

std::string gDesc;
bool gCaseFailed = false;

std::string esc(const std::string &s) {
    std::string o;
    rt::jsonEscape(o, s.data(), std::min<size_t>(s.size(), 150));
    return o;
}
void fail(const char *rule, const char *site, const std::string &d) {
    gCaseFailed = true;
    rt::violation("C18", rule, site, d + " | case: " + gDesc);
}

struct Node {
    std::string name;
    bool dir = false;
    size_t size = 0;
    std::vector<Node> kids;
};

std::string randomName(rt::Rng &rng, std::set<std::string> &used) {
    for (;;) {
        std::string n;
        unsigned k = (unsigned) rng.below(100);
        if (k < 6) { n = std::string(1, "cC9x:"[rng.below(5)]) + ":"; size_t len = rng.below(5); for (size_t i = 0; i < len; ++i) n += "41.pngZ: "[rng.below(9)]; ++C.oddNames; }   // "c:", "9:41.png"
        else if (k < 45) { size_t len = 1 + rng.below(8); for (size_t i = 0; i < len; ++i) n += (char) ('a' + rng.below(26)); }
        else if (k < 55) n = "with space " + std::to_string(rng.below(50));
        else if (k < 63) n = "." + std::string(1 + rng.below(5), (char) ('a' + rng.below(26)));            // leading dot
        else if (k < 70) n = std::string(1 + rng.below(3), '.') + "x" + std::string(rng.below(3), '.');     // dots
        else if (k < 78) n = "\xd0\xbf\xd1\x80\xd0\xb8\xd0\xb2\xd1\x96\xd1\x82-" + std::to_string(rng.below(50));   // UTF-8
        else if (k < 86) { size_t len = 1 + rng.below(6); for (size_t i = 0; i < len; ++i) n += (char) (0x80 + rng.below(0x7f)); }   // high bytes
        else if (k < 91) n = std::string(200, (char) ('A' + rng.below(26)));                                // 200-byte name
        else if (k < 95) n = "a.b.c" + std::to_string(rng.below(9));
        else n = std::string("tab\tand'quote\"") + std::to_string(rng.below(9));
        if (k >= 45) ++C.oddNames;
        if (n == "." || n == ".." || n.empty()) continue;
        if (used.insert(n).second) return n;
    }
}

void genTree(Node &d, rt::Rng &rng, int depth, int &budget) {
    std::set<std::string> used;
    int fan = depth == 0 ? (int) rng.range(1, 6) : (int) rng.range(0, 6);
    for (int i = 0; i < fan && budget > 0; ++i) {
        Node k;
        k.name = randomName(rng, used);
        --budget;
        if (depth < 4 && rng.chance(400)) {
            k.dir = true;
            if (!rng.chance(250)) genTree(k, rng, depth + 1, budget);
        } else {
            unsigned r = (unsigned) rng.below(100);
            k.size = r < 25 ? 0 : r < 80 ? rng.below(3000) : rng.below((uint64_t) rt::optInt("maxfile", 100000));
        }
        d.kids.push_back(std::move(k));
    }
}

void materialise(const Node &d, const fs::path &at) {
    for (auto &k : d.kids) {
        fs::path p = at / k.name;
        if (k.dir) { fs::create_directory(p); materialise(k, p); }
        else { std::ofstream o(p, std::ios::binary); std::string chunk(k.size, 'x'); o.write(chunk.data(), (std::streamsize) chunk.size()); }
    }
}

size_t treeSize(const Node &n) {
    if (!n.dir) return n.size;
    size_t s = 0;
    for (auto &k : n.kids) s += treeSize(k);
    return s;
}

// compares one node through the path string `p`
void checkNode(const Node &n, const std::string &p, const char *site) {
    ++C.queries;
    Path path(p);
    std::error_code ec;
    bool fsExists = fs::exists(fs::path(p), ec), fsDir = fs::is_directory(fs::path(p), ec), fsFile = fs::is_regular_file(fs::path(p), ec);
    if (fsDir != n.dir || !fsExists) return fail("harness-error", site, "generated tree is not what was generated at " + esc(p));
    if (!path.exists()) return fail("exists-wrong", site, "exists() is false for existing " + std::string(n.dir ? "directory " : "file ") + esc(p));
    if (path.isDirectory() != fsDir) return fail("isDirectory-wrong", site, "isDirectory() = " + std::to_string(path.isDirectory()) + " for " + esc(p));
    if (path.isFile() != fsFile) return fail("isFile-wrong", site, "isFile() = " + std::to_string(path.isFile()) + " for " + esc(p));
    size_t want = treeSize(n);
    size_t got = path.size();
    if (got != want) return fail("size-wrong", site, "size() = " + std::to_string(got) + " for " + esc(p) + ", the regular files beneath it hold " + std::to_string(want) + " bytes");
    if (n.dir) {
        std::multiset<std::string> listed, wantNames;
        for (auto &c : path.listChildren()) listed.insert(c.toString());
        for (auto &k : n.kids) wantNames.insert(k.name);
        std::multiset<std::string> onDisk;
        for (auto &e : fs::directory_iterator(fs::path(p))) onDisk.insert(e.path().filename().string());
        if (onDisk != wantNames) return fail("harness-error", site, "directory content differs from the generated one");
        if (listed != wantNames) {
            for (auto &l : listed) if (l == "." || l == "..") return fail("listChildren-wrong", site, "listChildren() returned '" + l + "' for " + esc(p));
            for (auto &l : listed) if (listed.count(l) > 1) return fail("listChildren-wrong", site, "listChildren() returned '" + esc(l) + "' twice");
            for (auto &w : wantNames) if (!listed.count(w)) return fail("listChildren-wrong", site, "listChildren() of " + esc(p) + " misses '" + esc(w) + "'");
            return fail("listChildren-wrong", site, "listChildren() of " + esc(p) + " returned " + std::to_string(listed.size()) + " entries, the directory has " + std::to_string(wantNames.size()));
        }
    } else {
        try { (void) path.listChildren(); fail("listChildren-wrong", site, "listChildren() on a regular file did not throw"); }
        catch (...) {}   // which error it reports is not part of the statement, only that a regular file has no children to list
    }
}

void walk(const Node &n, const std::string &p, const std::string &rel, rt::Rng &rng) {
    if (gCaseFailed) return;
    ++C.nodes;
    if (n.dir) { ++C.dirs; if (n.kids.empty()) ++C.emptyDirs; } else { ++C.files; C.bytesInFiles += n.size; }
    checkNode(n, p, "absolute-path");
    if (!gCaseFailed && !rel.empty()) { ++C.relativeQueries; checkNode(n, rel, "relative-path"); }
    if (!gCaseFailed && n.dir && rng.chance(600)) { ++C.trailingSepQueries; checkNode(n, p + "/", "trailing-separator"); }
    if (!gCaseFailed && rng.chance(300)) {
        // a path that does not exist next to / below this node
        std::string miss = (n.dir ? p + "/" : p + "-") + "no-such-entry";
        // other ways of not existing: below a regular file, an over-long component, inside a missing directory
        unsigned mk = (unsigned) rng.below(4);
        if (mk == 1 && !n.dir) miss = p + "/child";
        else if (mk == 2) miss = (n.dir ? p + "/" : p + "-") + std::string(300, 'm');
        else if (mk == 3) miss += "/deeper/still";
        Path m(miss);
        ++C.missingProbes;
        if (m.exists() || m.isFile() || m.isDirectory()) return fail("exists-wrong", "missing-path", "exists()/isFile()/isDirectory() true for missing " + esc(miss));
        try { (void) m.size(); return fail("wrong-error", "missing-path", "size() of a missing path did not throw"); }
        catch (...) {}   // (the kind of error is not part of the statement)
        try { (void) m.listChildren(); return fail("wrong-error", "missing-path", "listChildren() of a missing path did not throw"); }
        catch (...) {}
    }
    for (auto &k : n.kids) walk(k, p + "/" + k.name, rel.empty() ? k.name : rel + "/" + k.name, rng);
}

std::string cwd() { return fs::current_path().string(); }

void visitorChecks(const Node &root, const std::string &rootPath, rt::Rng &rng) {
    std::string before = cwd();
    {
        DirectoryVisitor v{Path(rootPath)};
        ++C.visitors;
        if (cwd() != rootPath) return fail("visitor-did-not-enter", "visitor", "working directory is " + esc(cwd()) + " inside a DirectoryVisitor for " + esc(rootPath));
        if (v.get().toString() != rootPath) return fail("visitor-did-not-enter", "visitor", "get() differs");
        // relative queries only make sense from here
        for (auto &k : root.kids) if (!gCaseFailed && rng.chance(500)) checkNode(k, k.name, "relative-inside-visitor");
        for (auto &k : root.kids)
            if (k.dir && rng.chance(700)) {
                std::string mid = cwd();
                {
                    DirectoryVisitor inner{Path(k.name)};   // relative, nested
                    ++C.nestedVisitors;
                    if (cwd() != rootPath + "/" + k.name) return fail("visitor-did-not-enter", "visitor", "nested relative visitor ended in " + esc(cwd()));
                    { DirectoryVisitor none; ++C.visitors; }                   // empty path: no change
                    { DirectoryVisitor none2{Path("")}; ++C.visitors; }
                    if (cwd() != rootPath + "/" + k.name) return fail("visitor-not-restored", "visitor", "an empty-path visitor changed the working directory");
                }
                if (cwd() != mid) return fail("visitor-not-restored", "visitor", "after the nested visitor the working directory is " + esc(cwd()) + ", before it was " + esc(mid));
                break;
            }
        if (rng.chance(400)) {
            // one visitor object used for two visits, with a change of directory by the program in between: the
            // second visit has to remember where it started, not where the first one did
            std::string dirA, dirB;
            for (auto &k : root.kids) if (k.dir) { if (dirA.empty()) dirA = rootPath + "/" + k.name; else if (dirB.empty()) dirB = rootPath + "/" + k.name; }
            if (!dirA.empty()) {
                if (dirB.empty()) dirB = rootPath;
                {
                    DirectoryVisitor v2;
                    v2.set(Path(dirA));
                    v2.visit();
                    v2.restore();
                    if (cwd() != rootPath) return fail("visitor-not-restored", "visitor-reuse", "restore() after the first visit did not return");
                    fs::current_path(dirB);
                    bool missingTarget = rng.chance(400);   // the second target may not exist: the visit fails, the visitor must still return to where it was called
                    v2.set(Path(missingTarget ? dirA + "/no-such-directory" : dirA));
                    v2.visit();
                    if (cwd() != (missingTarget ? dirB : dirA)) return fail("visitor-did-not-enter", "visitor-reuse", missingTarget ? "a visit to a missing directory moved the process" : "second visit() did not enter");
                }
                ++C.visitorReuses;
                if (cwd() != dirB) return fail("visitor-not-restored", "visitor-reuse", "a reused visitor returned to '" + esc(cwd()) + "' instead of the directory its second visit started from");
                fs::current_path(rootPath);
            }
        }
        if (rng.chance(300)) {
            // explicit restore followed by the destructor
            DirectoryVisitor again;
            again.set(Path(rootPath));
            again.visit();
            again.restore();
            if (cwd() != rootPath) return fail("visitor-not-restored", "visitor", "restore() did not return to the directory of visit()");
        }
    }
    if (cwd() != before) fail("visitor-not-restored", "visitor", "working directory is " + esc(cwd()) + " after the visitor was destroyed, before it was " + esc(before));
    if (!gCaseFailed && rng.chance(300)) {
        // the static functions the visitor is built on
        Path::setWorkingDirectory(Path(rootPath));
        if (cwd() != rootPath || Path::getWorkingDirectory().toString() != rootPath) fail("getWorkingDirectory-wrong", "setWorkingDirectory", "setWorkingDirectory(Path)/getWorkingDirectory() disagree with the process");
        Path::setWorkingDirectory(before);
        if (cwd() != before) fail("getWorkingDirectory-wrong", "setWorkingDirectory", "setWorkingDirectory(string) did not change the directory");
    }
}

// A chain of nested directories with long names: the working directory grows well beyond 255 bytes
// while visitors are stacked on the way down, and every one of them must restore its predecessor.
void descend(const std::vector<std::string> &names, size_t level, const std::string &here, rt::Rng &rng) {
    if (gCaseFailed || level == names.size()) return;
    std::string next = here + "/" + names[level];
    {
        bool relative = rng.chance(700);
        DirectoryVisitor v{Path(relative ? names[level] : next)};
        ++C.nestedVisitors;
        C.longestCwd = std::max<uint64_t>(C.longestCwd, next.size());
        if (cwd() != next) return fail("visitor-did-not-enter", "deep-visitor", "level " + std::to_string(level) + ": working directory has " + std::to_string(cwd().size()) + " bytes, expected the " + std::to_string(next.size()) + "-byte directory");
        Path wd = Path::getWorkingDirectory();
        if (wd.toString() != next) return fail("getWorkingDirectory-wrong", "deep-visitor", "getWorkingDirectory() returned " + std::to_string(wd.toString().size()) + " bytes for a working directory of " + std::to_string(next.size()) + " bytes");
        if (!Path(".").isDirectory() || !Path(next).exists()) return fail("exists-wrong", "deep-visitor", "long path not seen as a directory");
        descend(names, level + 1, next, rng);
    }
    if (!gCaseFailed && cwd() != here)
        fail("visitor-not-restored", "deep-visitor", "after the visitor of level " + std::to_string(level) + " (cwd was " + std::to_string(next.size()) + " bytes) the working directory is '" + esc(cwd()) + "', expected the " + std::to_string(here.size()) + "-byte parent");
}

void deepCase(uint64_t c, rt::Rng rng, const std::string &base) {
    std::vector<std::string> names;
    int depth = (int) rng.range(3, 7);
    std::string rootPath = base + "/d" + std::to_string(c);
    std::string p = rootPath;
    for (int i = 0; i < depth; ++i) {
        std::string n = "level-" + std::to_string(i) + "-" + std::string((size_t) rng.range(20, 200), (char) ('a' + rng.below(26)));
        names.push_back(n);
        p += "/" + n;
    }
    fs::create_directories(p);
    size_t fileSize = (size_t) rng.below(5000);
    { std::ofstream o(p + "/leaf.bin", std::ios::binary); o << std::string(fileSize, 'z'); }
    gDesc = "deep chain case " + std::to_string(c) + ": " + std::to_string(depth) + " nested directories, deepest path " + std::to_string(p.size()) + " bytes";
    rt::crumb("%s", gDesc.c_str());
    std::string before = cwd();
    fs::current_path(rootPath);
    descend(names, 0, rootPath, rng);
    if (!gCaseFailed && cwd() != rootPath) fail("visitor-not-restored", "deep-visitor", "working directory not back at the chain root");
    // size / listing through the long absolute path
    if (!gCaseFailed) {
        Path deep(p);
        if (!deep.exists() || !deep.isDirectory() || deep.size() != fileSize) fail("size-wrong", "long-path", "size()/exists() wrong through a " + std::to_string(p.size()) + "-byte path");
        else if (Path(rootPath).size() != fileSize) fail("size-wrong", "long-path", "size() of the chain root does not reach the leaf file");
    }
    // a visitor whose target is the directory the process is already in (spelled absolutely), with the working directory
    // changed inside its scope (directly, or by an inner visitor): it still restores the directory it started from
    if (!gCaseFailed && rng.chance(500)) {
        std::string here = cwd();
        {
            DirectoryVisitor self{Path(here)};
            if (cwd() != here) fail("visitor-did-not-enter", "visitor-self", "a visitor of the current directory moved the process to " + esc(cwd()));
            if (rng.chance(500)) fs::current_path(here + "/" + names[0]);
            else { DirectoryVisitor inner{Path(names[0])}; if (cwd() != here + "/" + names[0]) fail("visitor-did-not-enter", "visitor-self", "inner visitor did not enter"); }
            if (rng.chance(500)) fs::current_path(base);
        }
        if (!gCaseFailed && cwd() != here) fail("visitor-not-restored", "visitor-self", "a visitor of the directory the process was already in left the process in '" + esc(cwd()) + "' instead of '" + esc(here) + "'");
        fs::current_path(here);
        ++C.selfVisits;
    }
    // a directory with more entries than one read of the directory stream returns (thousands of short names, hundreds of
    // long ones): every entry is listed exactly once, and the size is the sum
    if (!gCaseFailed && rng.chance(100)) {
        std::string big = p + "/many";
        fs::create_directories(big);
        bool longNames = rng.chance(400);
        int n = longNames ? (int) rng.range(250, 400) : (int) rng.range(1500, 3500);
        std::set<std::string> want;
        uint64_t bytes = 0;
        for (int i = 0; i < n; ++i) {
            std::string nm = longNames ? "entry-" + std::to_string(i) + "-" + std::string(190, (char) ('a' + i % 26)) : "e" + std::to_string(i);
            size_t sz = i % 7 == 0 ? (size_t) (i % 50) : 0;
            { std::ofstream o(big + "/" + nm, std::ios::binary); o << std::string(sz, 'q'); }
            want.insert(nm);
            bytes += sz;
        }
        std::multiset<std::string> got;
        for (auto &ch : Path(big).listChildren()) got.insert(ch.toString());
        size_t dup = 0, missing = 0, foreign = 0;
        for (auto &g : got) { if (got.count(g) > 1) ++dup; if (!want.count(g)) ++foreign; }
        for (auto &w : want) if (!got.count(w)) ++missing;
        if (got.size() != want.size() || dup || missing || foreign)
            fail("listChildren-wrong", "many-entries", "listChildren() of a directory with " + std::to_string(n) + " entries returned " + std::to_string(got.size()) + " names: " + std::to_string(missing) + " missing, " + std::to_string(foreign) + " that are not in the directory, " + std::to_string(dup) + " duplicated");
        else if (Path(big).size() != bytes) fail("size-wrong", "many-entries", "size() of a directory with " + std::to_string(n) + " entries is " + std::to_string(Path(big).size()) + ", its files hold " + std::to_string(bytes) + " bytes");
        fileSize += bytes;   // (the directory lies below the chain: later sums include it)
        ++C.manyEntryDirs;
    }
    // now and then the leaf directory also gets sparse files whose sizes add up to more than 2^31 and 2^32 bytes
    if (!gCaseFailed && rng.chance(250)) {
        uint64_t total = fileSize;
        int nBig = (int) rng.range(2, 4);
        for (int i = 0; i < nBig; ++i) {
            std::string bf = p + "/sparse" + std::to_string(i);
            uint64_t sz = 1200000000ULL + rng.below(600000000ULL);
            { std::ofstream o(bf, std::ios::binary); }
            if (truncate(bf.c_str(), (off_t) sz) != 0) { total = 0; break; }
            total += sz;
        }
        if (total) {
            ++C.bigDirs;
            size_t got = Path(p).size(), gotRoot = Path(rootPath).size();
            if (got != total || gotRoot != total) fail("size-wrong", "large-directory", "size() = " + std::to_string(got) + " / " + std::to_string(gotRoot) + " for a directory whose (sparse) regular files hold " + std::to_string(total) + " bytes");
        }
    }
    fs::current_path(before);
    ++C.deepChains;
    ++C.trees;
    ++C.nontrivialCases;
    rt::Hash h;
    for (auto &n : names) h.add(std::hash<std::string>{}(n));
    C.fps.push_back(h.get());
    std::error_code ec;
    fs::remove_all(rootPath, ec);
}

void treeCase(uint64_t c, rt::Rng rng, const std::string &base) {
    Node root;
    root.dir = true;
    root.name = "t" + std::to_string(c);
    int budget = (int) rng.range(3, 60);
    genTree(root, rng, 0, budget);
    std::string rootPath = base + "/" + root.name;
    fs::create_directories(rootPath);
    materialise(root, rootPath);
    gDesc = "tree case " + std::to_string(c) + " at " + rootPath;
    rt::crumb("tree case at %s", rootPath.c_str());
    // relative paths are taken from `base`, which is the working directory of the run
    std::string before = cwd();
    fs::current_path(base);
    walk(root, rootPath, root.name, rng);
    if (!gCaseFailed) visitorChecks(root, rootPath, rng);
    fs::current_path(before);
    ++C.trees;
    ++C.nontrivialCases;
    rt::Hash h;
    std::function<void(const Node &)> hs = [&](const Node &n) { h.add(std::hash<std::string>{}(n.name)); h.add(n.dir); h.add(n.size); for (auto &k : n.kids) hs(k); h.add(7); };
    hs(root);
    C.fps.push_back(h.get());
    if (C.samples.size() < 3) {
        std::string shape;
        std::function<void(const Node &, int)> sh = [&](const Node &n, int d) { if (shape.size() > 300) return; shape += std::string((size_t) d, ' ') + esc(n.name.substr(0, 24)) + (n.dir ? "/" : " (" + std::to_string(n.size) + " B)") + "; "; for (auto &k : n.kids) sh(k, d + 1); };
        sh(root, 0);
        C.samples.push_back(rt::Json().kv("kind", "tree").kv("shape", shape).str());
    }
    std::error_code ec;
    fs::remove_all(rootPath, ec);
}

std::string segment(rt::Rng &rng) {
    static const char *s[] = {"a", "dir", "with space", ".hidden", "x.y", "..", ".", "\xd1\x84", "LONG-segment-0123456789", "a.b.c", "-", "~"};
    if (rng.chance(650)) return s[rng.below(12)];
    // any bytes but the separators: drive-letter look-alikes ("c:", "9:41.png"), punctuation, spaces
    static const char cs[] = "abcCZ019:;.-_ ~%@+#=,()[]{}!$&'^`*?<>|\"";
    std::string n;
    size_t len = 1 + rng.below(6);
    for (size_t i = 0; i < len; ++i) n += cs[rng.below(sizeof cs - 1)];
    ++C.randomSegments;
    return n;
}

void stringCase(uint64_t c, rt::Rng rng) {
    gDesc = "string case " + std::to_string(c);
    for (int i = 0; i < 200 && !gCaseFailed; ++i) {
        ++C.strings;
        // (1) identities: non-empty d from segments and '/' separators, separator-free non-empty n
        std::string d;
        if (rng.chance(400)) d = "/";
        int segs = (int) rng.range(d.empty() ? 1 : 0, 5);
        for (int k = 0; k < segs; ++k) { d += segment(rng); if (k + 1 < segs) d += std::string(rng.chance(150) ? 2 : 1, '/'); }
        if (segs > 0 && rng.chance(400)) d += "/";
        if (segs > 0 && rng.chance(80)) d += "/";
        std::string n = segment(rng);
        if (rng.chance(300)) n += std::to_string(rng.below(100));
        rt::crumb("strings d='%s' n='%s'", d.c_str(), n.c_str());
        std::string j = Path::join(d, n);
        Path jp = Path::join(Path(d), Path(n));
        ++C.identities;
        if (jp.toString() != j) return fail("join-inconsistent", "join", "join(Path, Path) != join(string, string) for '" + esc(d) + "', '" + esc(n) + "'");
        std::string name = Path(j).getPathName();
        if (name != n) return fail("name-of-join", "getPathName", "getPathName(join('" + esc(d) + "', '" + esc(n) + "')) = '" + esc(name) + "' (join = '" + esc(j) + "')");
        std::string wantParent = d.back() == '/' ? d.substr(0, d.size() - 1) : d;
        std::string parent = Path(j).getParentDirectory().toString();
        if (parent != wantParent) return fail("parent-of-join", "getParentDirectory", "getParentDirectory(join('" + esc(d) + "', '" + esc(n) + "')) = '" + esc(parent) + "', expected '" + esc(wantParent) + "'");
        if (Path(j).isAbsolute() != (d[0] == '/')) return fail("isAbsolute-wrong", "isAbsolute", "isAbsolute('" + esc(j) + "')");
        // three-argument joins fold from the left
        if (rng.chance(300)) { std::string n2 = segment(rng); if (Path::join(d, n, n2) != Path::join(Path::join(d, n), n2)) return fail("join-inconsistent", "join", "variadic join differs from nested joins"); }
        // Path overloads and the literal agree with the string functions
        if (rng.chance(200)) {
            std::string n2 = segment(rng), n3 = segment(rng);
            Path viaPaths = Path::join(Path(d), Path(n), Path(n2), Path(n3));
            if (viaPaths.toString() != Path::join(d, n, n2, n3)) return fail("join-inconsistent", "join", "variadic join(Path...) differs from join(string...)");
            Path sp;
            sp.setPath(j);
            if (sp.toString() != j || sp.getPathName() != n) return fail("join-inconsistent", "setPath", "setPath()/toString() do not round-trip");
            using namespace tulz;
            if (("a/b"_p).toString() != "a/b" || Path::getSystemPath().toString() != "/" || !Path::getSystemPath().isAbsolute()) return fail("join-inconsistent", "literal", "_p literal or getSystemPath() wrong");
        }
        // (2) joining an absolute path yields that path; joining onto the empty path yields the second
        std::string abs = "/" + segment(rng) + (rng.chance(500) ? "/" + segment(rng) : "");
        ++C.absoluteJoins;
        if (Path::join(d, abs) != abs) return fail("join-absolute", "join", "join('" + esc(d) + "', '" + esc(abs) + "') = '" + esc(Path::join(d, abs)) + "'");
        if (Path::join(std::string(), n) != n) return fail("join-empty", "join", "join('', n) != n");
        // (3) everything else: only memory safety (ASan/UBSan are the oracle)
        std::string any;
        size_t len = rng.below(12);
        for (size_t k = 0; k < len; ++k) { unsigned r = (unsigned) rng.below(10); any += r < 3 ? '/' : r < 5 ? '\\' : r < 6 ? '.' : (char) ('a' + rng.below(4)); }
        ++C.arbitraryStrings;
        Path ap(any);
        volatile size_t sink = ap.getPathName().size() + ap.getParentDirectory().toString().size() + Path::join(any, any).size() + (size_t) ap.isAbsolute();
        (void) sink;
        rt::Hash h;
        h.add(std::hash<std::string>{}(d)); h.add(std::hash<std::string>{}(n)); h.add(std::hash<std::string>{}(any));
        C.fps.push_back(h.get());
    }
    ++C.nontrivialCases;
    if (C.samples.size() < 5) C.samples.push_back(rt::Json().kv("kind", "strings").kv("example", "d, n drawn from segments {a, dir, 'with space', .hidden, x.y, .., ., UTF-8, ...} joined by '/' (runs of 2), optional leading '/' and trailing '/'").str());
}

} // namespace

size_t openDescriptors() {
    size_t n = 0;
    std::error_code ec;
    for (auto it = fs::directory_iterator("/proc/self/fd", ec); !ec && it != fs::directory_iterator(); it.increment(ec)) ++n;
    return n;
}

int main(int argc, char **argv) {
    rt::init(argc, argv);
    rt::cpuBudgetPerCase(240);   // single-threaded, deterministic: a case that burns 240 s of CPU time does not terminate
    std::string base = fs::absolute("h_path_" + std::to_string(getpid())).string();
    fs::create_directories(base);
    for (uint64_t c = rt::st().from; c < rt::st().from + rt::st().count; ++c) {
        rt::setCase(c);
        gCaseFailed = false;
        rt::Rng rng(rt::mix(rt::st().seed, c));
        size_t fdsBefore = openDescriptors();
        if (c % 10 == 4) deepCase(c, rng, base);
        else if (c % 2 == 0) treeCase(c, rng, base);
        else stringCase(c, rng);
        // queries leave nothing open behind them: a descriptor lost per measured directory or per failed probe ends, some
        // thousand queries later, in sizes and existence answers that no longer agree with the filesystem
        size_t fdsAfter = openDescriptors();
        ++C.descriptorChecks;
        if (!gCaseFailed && fdsAfter > fdsBefore)
            fail("descriptor-leak", "case", std::to_string(fdsAfter - fdsBefore) + " file descriptor(s) stayed open after the queries of this case (" + std::to_string(fdsBefore) + " -> " + std::to_string(fdsAfter) + ")");
    }
    std::error_code ec;
    fs::remove_all(base, ec);
    rt::dumpFingerprints(C.fps);
    rt::finish(rt::Json().kv("engine", "h_path").kv("trees", C.trees).kv("nodes", C.nodes).kv("directories", C.dirs).kv("files", C.files)
                   .kv("emptyDirectories", C.emptyDirs).kv("nodeQueries", C.queries).kv("relativeQueries", C.relativeQueries)
                   .kv("trailingSeparatorQueries", C.trailingSepQueries).kv("missingPathProbes", C.missingProbes).kv("oddNames", C.oddNames).kv("randomSegments", C.randomSegments).kv("descriptorChecks", C.descriptorChecks).kv("visitorsOfTheCurrentDirectory", C.selfVisits).kv("directoriesWithThousandsOfEntries", C.manyEntryDirs)
                   .kv("bytesInFiles", C.bytesInFiles).kv("pathStrings", C.strings).kv("identitiesChecked", C.identities).kv("absoluteJoins", C.absoluteJoins)
                   .kv("arbitraryStrings", C.arbitraryStrings).kv("visitors", C.visitors).kv("nestedVisitors", C.nestedVisitors).kv("deepChains", C.deepChains).kv("directoriesOver2GiB", C.bigDirs).kv("visitorObjectsReused", C.visitorReuses).kv("maxCwdBytes", C.longestCwd)
                   .kv("nontrivialCases", C.nontrivialCases).raw("samples", rt::jsonArray(C.samples, false)));
    return 0;
}
