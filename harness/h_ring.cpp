// Engine for C04 (RingBuffer == bounded deque) and C09 (element lifetimes).
// One case = one seeded operation history over up to 4 live buffers of one
// element type and overwrite mode, run in lock-step with a std::deque model;
// the whole observable state of every live buffer is compared after every
// operation, and for the Tracked element type the lifetime registry is
// reconciled after every operation (rt/tracked.h).
//
// Compiled with -fno-access-control: m_pos/m_capacity are read for coverage
// *measurement* only (layout statistics), never by an oracle.
#include "../rt/rt.h"
#include "../rt/tracked.h"
#include "../rt/elems.h"

#include <tulz/container/RingBuffer.h>

#include <deque>
#include <memory>
#include <set>
#include <string>

using rt::LifeRegistry;
using rt::Tracked;

namespace {

using rt::Elem;
using rt::Pod24;

struct Cover {
    std::map<std::string, uint64_t> opCount;
    std::set<uint64_t> layouts;         // (op, cap, pos, size)
    std::map<std::string, uint64_t> opOnWrapped, opOnFull;
    uint64_t histories = 0, ops = 0, nontrivialCases = 0, compared = 0, hugeRings = 0, hugeSkipped = 0;
    std::vector<uint64_t> fps;
    std::vector<std::string> samples;
} C;

const char *gProp = "C04";
std::string gHist;   // textual history of the current case (witness)
bool gCaseFailed = false;

void fail(const char *prop, const char *rule, const char *site, const std::string &d) {
    gCaseFailed = true;
    rt::violation(prop, rule, site, d + " | history: " + (gHist.size() > 1500 ? "..." + gHist.substr(gHist.size() - 1500) : gHist));
}

// Physical layout of a buffer, for the coverage statistics only (which layouts were operated on): read from the private
// members when the implementation has them under these names, otherwise estimated from element addresses through the
// public interface - a re-implementation with other internals must still build and be judged.
struct Layout { size_t cap, pos, size; bool wrapped; };
template<class B> Layout layoutOf(const B &b) {
    if constexpr (requires { b.m_pos; b.m_capacity; b.m_size; }) {
        size_t cap = b.m_capacity, pos = (size_t) b.m_pos, size = b.m_size;
        return {cap, pos, size, pos + size > cap};
    } else {
        size_t cap = b.capacity(), size = b.size(), pos = 0;
        bool wrapped = false;
        for (size_t i = 0; i + 1 < size; ++i)
            if (&b[i + 1] < &b[i]) { wrapped = true; pos = cap > i + 1 ? cap - (i + 1) : 0; break; }   // elements 0..i end the block
        if (!wrapped && size) pos = ((uintptr_t) &b[0] / sizeof(b[0])) % 3;                            // (offset unknown: a stable guess)
        return {cap, pos, size, wrapped};
    }
}

template<class T, bool OW>
struct Runner {
    using Buf = tulz::RingBuffer<T, OW>;
    using Other = tulz::RingBuffer<T, !OW>;
    using E = Elem<T>;
    static constexpr bool kTracked = std::is_base_of_v<Tracked, T>;
    static constexpr bool kString = std::is_same_v<T, std::string>;

    struct Slot {
        std::unique_ptr<Buf> b;
        std::deque<int64_t> m;     // model contents
        size_t cap = 0;
        bool movedFrom = false;    // only destroy / assign-to allowed
        size_t hidden = 0;         // live values a moved-from object may still own
    };
    Slot s[4];
    rt::Rng rng;
    int64_t nextVal = 1;
    bool sawNontrivial = false;
    rt::Hash hist;
    const char *op = "";

    explicit Runner(uint64_t seed) : rng(seed) {}

    void note(Slot &x, const char *opName) {
        op = opName;
        LifeRegistry::get().site = opName;
        ++C.opCount[opName];
        ++C.ops;
        if (x.b && !x.movedFrom) {
            Layout lay = layoutOf(*x.b);
            size_t cap = lay.cap, pos = lay.pos, size = lay.size;
            rt::Hash h;
            h.add((uint64_t) (uintptr_t) opName[0] * 131 + strlen(opName));
            h.add(cap); h.add(pos); h.add(size);
            C.layouts.insert(h.get());
            if (lay.wrapped) { ++C.opOnWrapped[opName]; sawNontrivial = true; }
            if (size == cap) { ++C.opOnFull[opName]; sawNontrivial = true; }
        }
    }
    void log(const std::string &t) {
        gHist += t;
        gHist += ' ';
        for (char c : t) hist.add((uint64_t) c);
    }

    // ---------------------------------------------------------------- comparison with the model
    void checkBuf(int i) {
        Slot &x = s[i];
        if (!x.b || x.movedFrom) return;
        Buf &b = *x.b;
        const Buf &cb = b;
        std::string w = "buffer#" + std::to_string(i) + " after " + op + ": ";
        if (b.size() != x.m.size()) return fail("C04", "model-mismatch", op, w + "size() " + std::to_string(b.size()) + " != model " + std::to_string(x.m.size()));
        if (b.capacity() != x.cap) return fail("C04", "model-mismatch", op, w + "capacity() " + std::to_string(b.capacity()) + " != model " + std::to_string(x.cap));
        if (b.empty() != x.m.empty() || b.full() != (x.m.size() == x.cap)) return fail("C04", "model-mismatch", op, w + "empty()/full() wrong");
        size_t n = x.m.size();
        for (size_t k = 0; k < n; ++k) {
            int64_t got = E::val(cb[k]);
            if (got != x.m[k]) return fail("C04", "model-mismatch", op, w + "element [" + std::to_string(k) + "] = " + std::to_string(got) + ", model " + std::to_string(x.m[k]));
        }
        ++C.compared;
        if (n) {
            if (E::val(b.front()) != x.m.front() || E::val(b.back()) != x.m.back()) return fail("C04", "model-mismatch", op, w + "front()/back() wrong");
            if (&b.front() != &b[0] || &b.back() != &b[n - 1]) return fail("C04", "model-mismatch", op, w + "front()/back() do not alias [0]/[size-1]");
        }
        // iteration, both const-nesses
        size_t k = 0;
        for (T &e : b) {
            if (k >= n || E::val(e) != x.m[k]) return fail("C04", "model-mismatch", "iterate", w + "mutable iteration differs at " + std::to_string(k));
            ++k;
        }
        if (k != n) return fail("C04", "model-mismatch", "iterate", w + "mutable iteration length " + std::to_string(k));
        k = 0;
        for (auto it = cb.cbegin(); it != cb.cend(); ++it, ++k)
            if (k >= n || E::val(*it) != x.m[k]) return fail("C04", "model-mismatch", "iterate", w + "const iteration differs at " + std::to_string(k));
        if (k != n) return fail("C04", "model-mismatch", "iterate", w + "const iteration length " + std::to_string(k));
        if ((size_t) (b.end() - b.begin()) != n || (size_t) std::distance(cb.begin(), cb.end()) != n)
            return fail("C04", "model-mismatch", "iterate", w + "end()-begin() != size");
    }

    void iteratorArithmetic(int i) {
        Slot &x = s[i];
        Buf &b = *x.b;
        size_t n = x.m.size();
        std::string w = "buffer#" + std::to_string(i) + " iterator arithmetic: ";
        auto bg = b.begin(), en = b.end();
        if (!(bg + (std::ptrdiff_t) n == en) || !(en - (std::ptrdiff_t) n == bg)) return fail("C04", "model-mismatch", "iterator", w + "begin()+size != end()");
        if (n == 0) {
            if (bg != en || bg < en || bg > en || !(bg <= en) || !(bg >= en)) fail("C04", "model-mismatch", "iterator", w + "empty range comparisons");
            return;
        }
        size_t a = rng.below(n), c = rng.below(n);
        auto ia = bg + (std::ptrdiff_t) a, ic = bg;
        ic += (std::ptrdiff_t) c;
        if (E::val(*ia) != x.m[a] || E::val(*ic) != x.m[c]) return fail("C04", "model-mismatch", "iterator", w + "*(begin()+k) wrong");
        if ((ia - ic) != (std::ptrdiff_t) a - (std::ptrdiff_t) c) return fail("C04", "model-mismatch", "iterator", w + "difference wrong");
        if ((ia < ic) != (a < c) || (ia > ic) != (a > c) || (ia <= ic) != (a <= c) || (ia >= ic) != (a >= c) || (ia == ic) != (a == c) || (ia != ic) != (a != c))
            return fail("C04", "model-mismatch", "iterator", w + "ordering wrong");
        auto p = ia;
        auto old = p++;
        if (E::val(*old) != x.m[a] || (p - bg) != (std::ptrdiff_t) a + 1) return fail("C04", "model-mismatch", "iterator", w + "postfix ++ wrong");
        auto old2 = p--;
        if ((old2 - bg) != (std::ptrdiff_t) a + 1 || E::val(*p) != x.m[a]) return fail("C04", "model-mismatch", "iterator", w + "postfix -- wrong");
        ++p; --p;
        p -= (std::ptrdiff_t) a;
        if (p != bg || E::val(*p) != x.m[0]) return fail("C04", "model-mismatch", "iterator", w + "-= wrong");
        // reverse walk
        auto r = en;
        for (size_t k = n; k-- > 0;) {
            --r;
            if (E::val(*r) != x.m[k]) return fail("C04", "model-mismatch", "iterator", w + "reverse walk differs at " + std::to_string(k));
        }
    }

    void reconcile() {
        for (int i = 0; i < 4; ++i) checkBuf(i);
        if constexpr (kTracked) {
            auto &R = LifeRegistry::get();
            int64_t lo = 0, hi = 0;
            std::set<uint64_t> oids;
            for (int i = 0; i < 4; ++i) {
                Slot &x = s[i];
                if (!x.b) continue;
                if (x.movedFrom) { hi += (int64_t) x.hidden; continue; }
                lo += (int64_t) x.m.size();
                const Buf &cb = *x.b;
                for (size_t k = 0; k < x.m.size(); ++k) {
                    const Tracked &t = cb[k];
                    if (!t.isLive()) { fail("C09", "element-not-live", op, "buffer#" + std::to_string(i) + " element [" + std::to_string(k) + "] does not hold a live value after " + op); return; }
                    if (!oids.insert(t.oid()).second) { fail("C09", "element-duplicated", op, "two slots hold the same object (bitwise duplicate) after " + std::string(op)); return; }
                }
            }
            hi += lo;
            if (R.live < lo) fail("C09", "live-value-destroyed", op, "registry holds " + std::to_string(R.live) + " live values, the buffers must hold " + std::to_string(lo) + " after " + op);
            else if (R.live > hi) fail("C09", "live-value-abandoned", op, std::to_string(R.live - hi) + " live value(s) are no longer reachable from any buffer after " + op + " (never destroyed / overwritten without release)");
        }
    }

    // ---------------------------------------------------------------- operations
    int pickValid(bool needNonEmpty = false, bool needRoom = false) {
        int cand[4], n = 0;
        for (int i = 0; i < 4; ++i) {
            Slot &x = s[i];
            if (!x.b || x.movedFrom) continue;
            if (needNonEmpty && x.m.empty()) continue;
            if (needRoom && !OW && x.m.size() == x.cap) continue;
            cand[n++] = i;
        }
        return n ? cand[rng.below(n)] : -1;
    }
    int pickFree() {
        for (int i = 0; i < 4; ++i) if (!s[i].b) return i;
        return -1;
    }
    size_t pickCap() { return rng.chance(200) ? 1 : (size_t) rng.range(1, 17); }

    void create(int i) {
        Slot &x = s[i];
        size_t cap = pickCap();
        if (rng.chance(300)) {
            // initializer list (1-3 elements) with explicit or default capacity
            size_t n = (size_t) rng.range(1, 3);
            bool dflt = rng.chance(400);
            if (!dflt && cap < n) cap = n;
            int64_t v0 = nextVal;
            nextVal += 3;
            note(x, "construct-ilist");
            log("new#" + std::to_string(i) + "{il" + std::to_string(n) + (dflt ? ",dflt}" : ",cap" + std::to_string(cap) + "}"));
            if (n == 1) x.b.reset(dflt ? new Buf({E::make(v0)}) : new Buf({E::make(v0)}, cap));
            else if (n == 2) x.b.reset(dflt ? new Buf({E::make(v0), E::make(v0 + 1)}) : new Buf({E::make(v0), E::make(v0 + 1)}, cap));
            else x.b.reset(dflt ? new Buf({E::make(v0), E::make(v0 + 1), E::make(v0 + 2)}) : new Buf({E::make(v0), E::make(v0 + 1), E::make(v0 + 2)}, cap));
            x.m.clear();
            for (size_t k = 0; k < n; ++k) x.m.push_back(v0 + (int64_t) k);
            x.cap = dflt ? n : cap;
        } else {
            note(x, "construct");
            log("new#" + std::to_string(i) + "(cap" + std::to_string(cap) + ")");
            x.b.reset(new Buf(cap));
            x.m.clear();
            x.cap = cap;
        }
        x.movedFrom = false;
        x.hidden = 0;
    }

    void pushBack(int i, bool emplace) {
        Slot &x = s[i];
        int64_t v = nextVal++;
        note(x, x.m.size() == x.cap ? "push_back-overwrite" : "push_back");
        log(std::string(emplace ? "eb#" : "pb#") + std::to_string(i) + "(" + std::to_string(v) + ")");
        T *r;
        if (emplace) { if constexpr (kTracked) r = &x.b->emplace_back((int64_t) v); else r = &x.b->emplace_back(E::make(v)); }
        else { T tmp = E::make(v); r = &x.b->push_back(tmp); }
        if (x.m.size() == x.cap) x.m.pop_front();
        x.m.push_back(v);
        if (r != &x.b->back() || E::val(*r) != v) fail("C04", "model-mismatch", op, "push_back did not return a reference to the inserted element");
    }
    void pushFront(int i, bool emplace) {
        Slot &x = s[i];
        int64_t v = nextVal++;
        note(x, x.m.size() == x.cap ? "push_front-overwrite" : "push_front");
        log(std::string(emplace ? "ef#" : "pf#") + std::to_string(i) + "(" + std::to_string(v) + ")");
        T *r;
        if (emplace) { if constexpr (kTracked) r = &x.b->emplace_front((int64_t) v); else r = &x.b->emplace_front(E::make(v)); }
        else { T tmp = E::make(v); r = &x.b->push_front(tmp); }
        if (x.m.size() == x.cap) x.m.pop_back();
        x.m.push_front(v);
        if (r != &x.b->front() || E::val(*r) != v) fail("C04", "model-mismatch", op, "push_front did not return a reference to the inserted element");
    }
    // the argument refers to an element of the buffer itself (as std containers must tolerate): the value has to be
    // read before the slot it may live in is overwritten or relocated
    void pushAlias(int i, bool front) {
        Slot &x = s[i];
        size_t k = rng.chance(500) ? (front ? x.m.size() - 1 : 0) : rng.below(x.m.size());   // biased to the element that an overwrite discards
        int64_t v = x.m[k];
        bool full = x.m.size() == x.cap;
        note(x, full ? (front ? "push_front-alias-overwrite" : "push_back-alias-overwrite") : (front ? "push_front-alias" : "push_back-alias"));
        log(std::string(front ? "pfA#" : "pbA#") + std::to_string(i) + "[" + std::to_string(k) + "]");
        unsigned how = (unsigned) rng.below(3);
        T *r;
        if (front) r = how == 0 ? &x.b->push_front((*x.b)[k]) : how == 1 ? &x.b->emplace_front((*x.b)[k]) : &x.b->push_front(*(x.b->begin() + (std::ptrdiff_t) k));
        else r = how == 0 ? &x.b->push_back((*x.b)[k]) : how == 1 ? &x.b->emplace_back((*x.b)[k]) : &x.b->push_back(*(x.b->begin() + (std::ptrdiff_t) k));
        if (front) { if (full) x.m.pop_back(); x.m.push_front(v); }
        else { if (full) x.m.pop_front(); x.m.push_back(v); }
        if (E::val(*r) != v) fail("C04", "model-mismatch", op, "pushing an element of the buffer itself inserted " + std::to_string(E::val(*r)) + " instead of " + std::to_string(v));
    }
    // emplace with two constructor arguments (parenthesised construction, not list-initialisation)
    void emplacePair(int i, bool front) {
        if constexpr (kTracked) {
            Slot &x = s[i];
            bool full = x.m.size() == x.cap;
            int64_t a = nextVal++, b = (int64_t) rng.range(0, 99);
            int64_t v = Tracked::pairValue(a, b);
            note(x, full ? "emplace-two-args-overwrite" : "emplace-two-args");
            log(std::string(front ? "ef2#" : "eb2#") + std::to_string(i) + "(" + std::to_string(a) + "," + std::to_string(b) + ")");
            T *r = front ? &x.b->emplace_front(a, b) : &x.b->emplace_back(a, b);
            if (front) { if (full) x.m.pop_back(); x.m.push_front(v); }
            else { if (full) x.m.pop_front(); x.m.push_back(v); }
            if (E::val(*r) != v) fail("C04", "model-mismatch", op, "emplace(a, b) did not construct the element as T(a, b): got " + std::to_string(E::val(*r)));
        }
    }
    // emplace with an empty argument pack: a value-initialised element
    void emplaceDefault(int i, bool front) {
        Slot &x = s[i];
        bool full = x.m.size() == x.cap;
        note(x, full ? "emplace-default-overwrite" : "emplace-default");
        log(std::string(front ? "efD#" : "ebD#") + std::to_string(i));
        T *r = front ? &x.b->emplace_front() : &x.b->emplace_back();
        int64_t v = E::val(T());
        if (front) { if (full) x.m.pop_back(); x.m.push_front(v); }
        else { if (full) x.m.pop_front(); x.m.push_back(v); }
        if (E::val(*r) != v) fail("C04", "model-mismatch", op, "emplace with no arguments did not insert a value-initialised element");
    }
    void popBack(int i) {
        Slot &x = s[i];
        note(x, "pop_back");
        log("popb#" + std::to_string(i));
        int64_t want = x.m.back();
        x.m.pop_back();
        T got = x.b->pop_back();
        if (E::val(got) != want) fail("C04", "model-mismatch", op, "pop_back returned " + std::to_string(E::val(got)) + ", model " + std::to_string(want));
    }
    void popFront(int i) {
        Slot &x = s[i];
        note(x, "pop_front");
        log("popf#" + std::to_string(i));
        int64_t want = x.m.front();
        x.m.pop_front();
        T got = x.b->pop_front();
        if (E::val(got) != want) fail("C04", "model-mismatch", op, "pop_front returned " + std::to_string(E::val(got)) + ", model " + std::to_string(want));
    }
    void writeIndex(int i) {
        Slot &x = s[i];
        size_t k = rng.below(x.m.size());
        int64_t v = nextVal++;
        note(x, "index-write");
        log("set#" + std::to_string(i) + "[" + std::to_string(k) + "]=" + std::to_string(v));
        if (rng.chance(500)) (*x.b)[k] = E::make(v);
        else *(x.b->begin() + (std::ptrdiff_t) k) = E::make(v);
        x.m[k] = v;
    }
    void resize(int i) {
        Slot &x = s[i];
        size_t n;
        unsigned r = (unsigned) rng.below(10);
        if (r < 4 && x.m.size() > 1) n = (size_t) rng.range(1, (int64_t) x.m.size() - 1);   // cut elements off
        else if (r < 6) n = std::max<size_t>(1, x.m.size());                                 // exactly fits
        else if (r < 7) n = x.cap;                                                           // no-op
        else n = (size_t) rng.range(1, 24);
        Layout lay = layoutOf(*x.b);
        const char *nm = n < x.m.size() ? (lay.wrapped ? "resize-cut-wrapped" : (lay.pos ? "resize-cut-offset" : "resize-cut"))
                         : n < x.cap ? "resize-shrink" : n == x.cap ? "resize-same" : "resize-grow";
        note(x, nm);
        log("rs#" + std::to_string(i) + "(" + std::to_string(n) + ")");
        x.b->resize(n);
        while (x.m.size() > n) x.m.pop_back();
        x.cap = n;
    }
    void copyConstruct(int from, int to) {
        note(s[from], "copy-construct");
        log("cc#" + std::to_string(to) + "<-#" + std::to_string(from));
        s[to].b.reset(new Buf(*s[from].b));
        s[to].m = s[from].m;
        s[to].cap = s[from].cap;
        s[to].movedFrom = false;
        s[to].hidden = 0;
        if (!(*s[to].b == *s[from].b)) fail("C04", "model-mismatch", "copy-construct", "a fresh copy does not compare equal to its source");
    }
    void copyAssign(int from, int to) {
        Slot &d = s[to];
        bool self = from == to;
        note(d, self ? "copy-assign-self" : (d.movedFrom ? "copy-assign-onto-moved-from" : (d.m.empty() ? "copy-assign-onto-empty" : "copy-assign-onto-nonempty")));
        log("ca#" + std::to_string(to) + "=#" + std::to_string(from));
        *d.b = *s[from].b;
        if (!self) {
            d.m = s[from].m;
            d.cap = s[from].cap;
            d.movedFrom = false;
            d.hidden = 0;
        }
    }
    void moveConstruct(int from, int to) {
        note(s[from], "move-construct");
        log("mc#" + std::to_string(to) + "<-#" + std::to_string(from));
        s[to].b.reset(new Buf(std::move(*s[from].b)));
        s[to].m = std::move(s[from].m);
        s[to].cap = s[from].cap;
        s[to].movedFrom = false;
        s[to].hidden = 0;
        s[from].m.clear();
        s[from].movedFrom = true;
        s[from].hidden = 0;
    }
    void moveAssign(int from, int to) {
        Slot &d = s[to], &f = s[from];
        if (from == to) {   // x = std::move(x) leaves x as it is
            note(d, "move-assign-self");
            log("ma#" + std::to_string(to) + "=mv#self");
            Buf &self = *d.b;
            *d.b = std::move(self);
            return;
        }
        note(d, d.movedFrom ? "move-assign-onto-moved-from" : "move-assign");
        log("ma#" + std::to_string(to) + "=mv#" + std::to_string(from));
        size_t oldLive = d.movedFrom ? d.hidden : d.m.size();
        *d.b = std::move(*f.b);
        d.m = std::move(f.m);
        d.cap = f.cap;
        d.movedFrom = false;
        d.hidden = 0;
        f.m.clear();
        f.movedFrom = true;        // may still own the target's previous values until destroyed or assigned to
        f.hidden = oldLive;
    }
    void destroy(int i) {
        note(s[i], s[i].movedFrom ? "destroy-moved-from" : "destroy");
        log("del#" + std::to_string(i));
        s[i].b.reset();
        s[i].m.clear();
        s[i].movedFrom = false;
        s[i].hidden = 0;
    }
    void compare(int i) {
        Slot &x = s[i];
        note(x, "compare");
        // same mode: another live buffer, or a copy
        int j = pickValid();
        bool want = s[j].m == x.m;
        log("eq#" + std::to_string(i) + ",#" + std::to_string(j));
        if ((*x.b == *s[j].b) != want) fail("C04", "model-mismatch", "compare", "operator== gave " + std::string(want ? "false" : "true") + " for buffers whose contents are " + (want ? "equal" : "different"));
        // other overwrite mode: rebuild the same contents with another capacity / head position, then perturb
        size_t n = x.m.size();
        Other o(n + 1 + rng.below(3));
        size_t rot = rng.below(o.capacity());
        for (size_t k = 0; k < rot; ++k) { o.push_back(E::make(0)); T t = o.pop_front(); (void) t; }
        for (size_t k = 0; k < n; ++k) { const Buf &cb = *x.b; o.push_back(cb[k]); }   // copies of the elements themselves (a value-initialised element has no make() form)
        if (!(*x.b == o)) fail("C04", "model-mismatch", "compare", "operator== across overwrite modes is false for equal contents");
        if (n && rng.chance(500)) {
            size_t k = rng.below(n);
            o[k] = E::make((x.m[k] < -1000000000 ? 0 : x.m[k]) + 1000000);
            if (*x.b == o) fail("C04", "model-mismatch", "compare", "operator== across overwrite modes is true for different contents");
        } else {
            o.push_back(E::make(-5));
            if (*x.b == o) fail("C04", "model-mismatch", "compare", "operator== is true for a buffer with one more element");
        }
    }

    void run(int steps, bool lifeBias, bool allowResize) {
        uint64_t v0 = rt::st().violations.load();
        create(0);
        reconcile();
        for (int st = 0; st < steps && !gCaseFailed; ++st) {
            rt::crumb("%s<%s,%d> step %d: %s", "ring", E::name, (int) OW, st, gHist.size() > 180 ? gHist.c_str() + gHist.size() - 180 : gHist.c_str());
            unsigned r = (unsigned) rng.below(1000);
            int i;
            unsigned wResize = allowResize ? (lifeBias ? 170 : 110) : 0;
            unsigned wCopyAssign = lifeBias ? 110 : 50;
            unsigned acc = 0;
            auto in = [&](unsigned w) { acc += w; return r < acc; };
            if (in(190)) { if ((i = pickValid(false, true)) >= 0) pushBack(i, rng.chance(400)); }
            else if (in(150)) { if ((i = pickValid(false, true)) >= 0) pushFront(i, rng.chance(400)); }
            else if (in(45)) { if ((i = pickValid(true, true)) >= 0) pushAlias(i, rng.chance(500)); }
            else if (in(15)) { if ((i = pickValid(false, true)) >= 0) emplaceDefault(i, rng.chance(500)); }
            else if (in(kTracked ? 40 : 0)) { if ((i = pickValid(false, true)) >= 0) emplacePair(i, rng.chance(500)); }
            else if (in(90)) { if ((i = pickValid(true)) >= 0) popBack(i); }
            else if (in(90)) { if ((i = pickValid(true)) >= 0) popFront(i); }
            else if (in(50)) { if ((i = pickValid(true)) >= 0) writeIndex(i); }
            else if (in(wResize)) { if ((i = pickValid()) >= 0) resize(i); }
            else if (in(wCopyAssign)) {
                int from = pickValid();
                int cand[4], n = 0;
                for (int k = 0; k < 4; ++k) if (s[k].b) cand[n++] = k;
                if (from >= 0 && n) copyAssign(from, cand[rng.below(n)]);
            }
            else if (in(40)) { int from = pickValid(), to = pickFree(); if (from >= 0 && to >= 0) copyConstruct(from, to); }
            else if (in(30)) { int from = pickValid(), to = pickFree(); if (from >= 0 && to >= 0) moveConstruct(from, to); }
            else if (in(40)) {
                int from = pickValid();
                int cand[4], n = 0;
                for (int k = 0; k < 4; ++k) if (s[k].b && k != from) cand[n++] = k;
                if (from >= 0 && rng.chance(100)) moveAssign(from, from);
                else if (from >= 0 && n) moveAssign(from, cand[rng.below(n)]);
            }
            else if (in(35)) { int to = pickFree(); if (to >= 0) create(to); }
            else if (in(30)) {
                int cand[4], n = 0;
                for (int k = 0; k < 4; ++k) if (s[k].b) cand[n++] = k;
                if (n > 1) destroy(cand[rng.below(n)]);
            }
            else if (in(40)) { if ((i = pickValid()) >= 0) compare(i); }
            else { if ((i = pickValid()) >= 0) { note(s[i], "iterator"); iteratorArithmetic(i); } }
            if (rt::st().violations.load() != v0) gCaseFailed = true;
            if (gCaseFailed) break;
            if (pickValid() < 0) { int to = pickFree(); if (to >= 0) create(to); else { destroy(0); create(0); } }
            reconcile();
            if (rt::st().violations.load() != v0) gCaseFailed = true;
        }
        if (gCaseFailed) {
            // the buffers may be corrupted: abandon them instead of running more destructors
            for (int k = 0; k < 4; ++k) (void) s[k].b.release();
            return;
        }
        for (int k = 0; k < 4; ++k) if (s[k].b) { destroy(k); reconcile(); }
        if constexpr (kTracked) {
            auto &R = LifeRegistry::get();
            if (R.live != 0 && !gCaseFailed)
                fail("C09", "live-value-abandoned", "end-of-history", std::to_string(R.live) + " live value(s) survive the destruction of every buffer");
        }
    }
};

template<class T, bool OW>
void runCase(uint64_t seed, int steps, bool lifeBias, bool allowResize) {
    Runner<T, OW> r(seed);
    r.run(steps, lifeBias, allowResize);
    ++C.histories;
    if (r.sawNontrivial) {
        ++C.nontrivialCases;
        C.fps.push_back(r.hist.get());
        if (C.samples.size() < 4 && gHist.size() < 700)
            C.samples.push_back(rt::Json().kv("type", Elem<T>::name).kv("overwrite", OW).kv("history", gHist).str());
    }
}


// ------------------------------------------------------------------ capacities beyond 2^31 and 2^32 elements
// "for every capacity >= 1": a RingBuffer<unsigned char> of 2^31+k or 2^32+k slots (the storage is never touched except
// where elements live, so it costs address space only). push_front on the empty buffer puts the head at the last slot,
// the following pushes wrap around the end: indices, iteration, pops, copies and resizes must agree with a deque.
template<bool ow>
void runHugeRing(rt::Rng rng) {
    size_t cap = ((size_t) 1 << (rng.chance(500) ? 32 : 31)) + 7 + (size_t) rng.below(100000);
    char d[160];
    snprintf(d, sizeof d, "RingBuffer<unsigned char, %s> with %zu slots", ow ? "true" : "false", cap);
    gHist = d;
    rt::crumb("%s", d);
    using RB = tulz::RingBuffer<unsigned char, ow>;
    if (rt::memAvailableBytes() < 3 * cap + (2ULL << 30)) { ++C.hugeSkipped; return; }   // address space only, but the allocator must grant it
    std::deque<unsigned char> m;
    auto same = [&](const RB &r, size_t wantCap, const char *what) {
        if (gCaseFailed) return;
        if (r.size() != m.size() || r.capacity() != wantCap) return fail("C04", "model-mismatch", what, std::string(d) + ": size/capacity " + std::to_string(r.size()) + "/" + std::to_string(r.capacity()) + " after " + what + ", expected " + std::to_string(m.size()) + "/" + std::to_string(wantCap));
        for (size_t i = 0; i < m.size(); ++i) if (r[i] != m[i]) return fail("C04", "model-mismatch", what, std::string(d) + ": element [" + std::to_string(i) + "] = " + std::to_string(r[i]) + " after " + what + ", the deque holds " + std::to_string(m[i]));
        size_t k = 0;
        for (auto it = r.begin(); it != r.end(); ++it, ++k) if (k >= m.size() || *it != m[k]) return fail("C04", "model-mismatch", what, std::string(d) + ": iteration differs at " + std::to_string(k) + " after " + what);
        if (k != m.size()) return fail("C04", "model-mismatch", what, std::string(d) + ": iteration length after " + what);
        ++C.compared;
    };
    {
        RB r(cap);
        if (r.capacity() != cap) { ++C.hugeSkipped; return; }
        unsigned char v = 1;
        int nf = (int) rng.range(1, 4), nb = (int) rng.range(2, 6);
        for (int i = 0; i < nf; ++i) { r.push_front(v); m.push_front(v); ++v; }
        same(r, cap, "push_front");
        for (int i = 0; i < nb; ++i) { r.push_back(v); m.push_back(v); ++v; }
        same(r, cap, "push_back");
        if (!gCaseFailed) { unsigned char a = r.pop_front(), b = m.front(); m.pop_front(); if (a != b) fail("C04", "model-mismatch", "pop_front", std::string(d) + ": pop_front returned " + std::to_string(a) + ", expected " + std::to_string(b)); }
        if (!gCaseFailed) { unsigned char a = r.pop_back(), b = m.back(); m.pop_back(); if (a != b) fail("C04", "model-mismatch", "pop_back", std::string(d) + ": pop_back returned " + std::to_string(a) + ", expected " + std::to_string(b)); }
        same(r, cap, "pops");
        if (!gCaseFailed) { RB c2(r); same(c2, cap, "copy-construct"); if (!gCaseFailed && !(c2 == r)) fail("C04", "model-mismatch", "compare", std::string(d) + ": a copy does not compare equal"); }
        if (!gCaseFailed) { RB c3(3); c3 = r; same(c3, cap, "copy-assign"); }
        if (!gCaseFailed) { r.resize(cap + 11); same(r, cap + 11, "resize-grow"); }
        for (int i = 0; i < 3 && !gCaseFailed; ++i) { r.push_front(v); m.push_front(v); ++v; }
        same(r, cap + 11, "push_front-after-grow");
        size_t small = ((size_t) 1 << 31) + 3;
        if (!gCaseFailed && small < cap) { r.resize(small); same(r, small, "resize-shrink"); }
        if (!gCaseFailed) { r.resize(4); while (m.size() > 4) m.pop_back(); same(r, 4, "resize-to-4"); }
    }
    ++C.hugeRings;
    ++C.histories;
    if (!gCaseFailed) { ++C.nontrivialCases; rt::Hash h; h.add(cap); h.add(ow); C.fps.push_back(h.get()); }
}

} // namespace

int main(int argc, char **argv) {
    rt::init(argc, argv);
    rt::cpuBudgetPerCase(240);   // single-threaded, deterministic: a case that burns 240 s of CPU time does not terminate
    gProp = rt::st().prop == "C09" ? "C09" : "C04";
    bool life = rt::st().prop == "C09";
    LifeRegistry::get().prop = "C09";
    LifeRegistry::get().context = [] { return "history: " + (gHist.size() > 1500 ? "..." + gHist.substr(gHist.size() - 1500) : gHist); };
    std::string types = rt::optStr("types", life ? "tracked,tracked,tracked-throwing-move" : "int,pod24,tracked,tracked-throwing-move,string");
    std::vector<std::string> tl;
    for (size_t p = 0; p <= types.size();) {
        size_t q = types.find(',', p);
        if (q == std::string::npos) q = types.size();
        tl.push_back(types.substr(p, q - p));
        p = q + 1;
    }
    int maxSteps = (int) rt::optInt("steps", 200);
    for (uint64_t c = rt::st().from; c < rt::st().from + rt::st().count; ++c) {
        rt::setCase(c);
        rt::Rng rng(rt::mix(rt::st().seed, c));
        gHist.clear();
        gCaseFailed = false;
        LifeRegistry::get().reset();
        if (!life && rng.chance((unsigned) rt::optInt("huge", 0))) { if (rng.chance(500)) runHugeRing<true>(rng); else runHugeRing<false>(rng); continue; }
        const std::string &t = tl[rng.below(tl.size())];
        bool ow = rng.chance(500);
        int steps = (int) (rng.chance(300) ? rng.range(1, 25) : rng.range(20, maxSteps));
        uint64_t s = rng.next();
        rt::crumb("ring<%s,%d> start", t.c_str(), (int) ow);
#define RUN(T) (ow ? runCase<T, true>(s, steps, life, true) : runCase<T, false>(s, steps, life, true))
        if (t == "int") RUN(int);
        else if (t == "pod24") RUN(Pod24);
        else if (t == "tracked") RUN(Tracked);
        else if (t == "tracked-throwing-move") RUN(rt::TrackedThrowingMove);
        else if (t == "string") { if (ow) runCase<std::string, true>(s, steps, life, false); else runCase<std::string, false>(s, steps, life, false); }
#undef RUN
    }
    rt::dumpFingerprints(C.fps);
    // layout fingerprints go to a second file so that the driver can count distinct layouts across processes
    std::vector<uint64_t> lay(C.layouts.begin(), C.layouts.end());
    rt::dumpFingerprints(lay, ".layouts");
    auto &R = LifeRegistry::get();
    rt::finish(rt::Json().kv("engine", "h_ring").kv("histories", C.histories).kv("ops", C.ops)
                   .kv("nontrivialCases", C.nontrivialCases).kv("stateComparisons", C.compared).kv("capacitiesOver2G", C.hugeRings).kv("hugeSkipped", C.hugeSkipped)
                   .kv("layoutsThisProcess", (uint64_t) C.layouts.size())
                   .kv("trackedCtors", R.ctor).kv("trackedDtors", R.dtor).kv("trackedMoves", R.moves).kv("shellDtors", R.shellDtor)
                   .raw("opCount", rt::jsonCounts(C.opCount)).raw("opOnWrapped", rt::jsonCounts(C.opOnWrapped))
                   .raw("opOnFull", rt::jsonCounts(C.opOnFull)).raw("samples", rt::jsonArray(C.samples, false)));
    return 0;
}
