// Engine for C07 (every task runs at most once, is destroyed exactly once,
// never before or during its run; nothing starts after stop(); single worker
// = FIFO) and C08 (stop() always terminates and leaves a quiescent,
// restartable pool; never more workers than the maximum).
//
// One case = one seeded owner program over {start(Runnable), start(closure),
// clear, stop, waitDrain, getters} on a fresh ThreadPool (non-expiring
// workers), with instrumented tasks. The pthread interposer injects delays at
// the pool's mutex/condvar operations (notably between "predicate evaluated"
// and "blocked") and its quiescence oracle turns a stop() that can never
// return, or a task that can never run, into a definitive verdict.
#include "../rt/rt.h"
#include "../rt/syncspy.h"

#include <tulz/threading/ThreadPool.h>

#include <condition_variable>
#include <mutex>
#include <algorithm>
#include <set>
#include <system_error>
#include <thread>
#include <sys/syscall.h>
#include <unistd.h>

using tulz::ThreadPool;

#if defined(__SANITIZE_ADDRESS__)
constexpr bool kInjectCreateFailure = false;
#else
constexpr bool kInjectCreateFailure = true;
#endif

namespace {

struct Cover {
    uint64_t concurrentSubmits = 0, startFailuresInjected = 0, expiringPrograms = 0, updates = 0;
    uint64_t programs = 0, ops = 0, submitted = 0, ran = 0, dropped = 0, stops = 0, clears = 0, drains = 0, restarts = 0, closures = 0;
    uint64_t stopsWithRunningTask = 0, clearsWithRunningTask = 0, stopsWithWorkerInPreBlock = 0, singleWorkerPrograms = 0, hugeMaximumPrograms = 0, programsNextToASecondPool = 0, programsOwnedByAWorkerOfAnotherPool = 0, maxWorkersSeen = 0, nontrivialCases = 0;
    std::vector<uint64_t> fps;
    std::vector<std::string> samples;
} C;

std::string gDesc;
const char *gPhase = "idle";
int gEpoch = 0;
bool gCaseFailed = false;

void fail(const char *prop, const char *rule, const char *site, const std::string &d) {
    gCaseFailed = true;
    rt::violation(prop, rule, site, d + " | case: " + gDesc);
}

enum : int { Queued = 0, Running = 1, Ran = 2 };
struct Rec {
    std::atomic<int> runs{0}, dtors{0}, state{Queued}, copies{0};
    std::atomic<uint64_t> runEnter{0}, runExit{0}, dtorStamp{0}, submit{0};
    std::atomic<int> workerTid{0};
    int epoch = 0;          // stop/restart epoch of submission
    int segment = 0;        // changes at every clear/stop: tasks of the current segment must run before a drain returns
    bool closure = false;
    unsigned dwellUs = 0;
    int orderKey = -1;      // position in the submission order (tasks submitted simultaneously share one)
};

constexpr int kMaxTasks = 256;
Rec *gRecs = nullptr;
std::atomic<int> gRunningNow{0};
std::atomic<int> gDestroyedWhileRunning{0}, gDoubleRun{0}, gWrongArgument{0};
std::mutex gDoneM;
std::condition_variable gDoneCv;
std::atomic<int> gFinishedEvents{0};   // run exits + destructions, for the owner's drain wait

void signalOwner() {
    gFinishedEvents.fetch_add(1);
    std::lock_guard l{gDoneM};
    gDoneCv.notify_all();
}

void runBody(int id) {
    Rec &r = gRecs[id];
    r.runEnter.store(spy::stamp());
    r.workerTid.store((int) syscall(SYS_gettid));
    if (r.runs.fetch_add(1) != 0) gDoubleRun.fetch_add(1);
    int prev = r.state.exchange(Running);
    (void) prev;
    gRunningNow.fetch_add(1);
    if (r.dwellUs) {
        if (r.dwellUs < 40) { for (unsigned i = 0; i < r.dwellUs; ++i) sched_yield(); }
        else usleep(r.dwellUs);
    }
    gRunningNow.fetch_sub(1);
    r.state.store(Ran);
    r.runExit.store(spy::stamp());
    spy::noteProgress();
}

class Task : public tulz::Runnable {
public:
    explicit Task(int id) : m_id(id) {}
    ~Task() override {
        Rec &r = gRecs[m_id];
        if (r.state.load() == Running) gDestroyedWhileRunning.fetch_add(1);
        r.dtorStamp.store(spy::stamp());
        r.dtors.fetch_add(1);
        signalOwner();
    }
    void run() override { runBody(m_id); }
private:
    int m_id;
};

// closure tasks: every copy counts; the one that runs must be alive while it runs
struct Closure {
    int id;
    volatile uint64_t magic = 0x600dc105e0000001ULL;
    explicit Closure(int i) : id(i) { gRecs[id].copies.fetch_add(1); }
    Closure(const Closure &o) : id(o.id) { gRecs[id].copies.fetch_add(1); }
    ~Closure() {
        magic = 0xdead;
        Rec &r = gRecs[id];
        int left = r.copies.fetch_sub(1) - 1;
        if (left == 0) {
            if (r.state.load() == Running) gDestroyedWhileRunning.fetch_add(1);
            r.dtorStamp.store(spy::stamp());
            r.dtors.fetch_add(1);
            signalOwner();
        }
    }
    void operator()() {
        if (magic != 0x600dc105e0000001ULL) gDestroyedWhileRunning.fetch_add(1);
        runBody(id);
        if (magic != 0x600dc105e0000001ULL) gDestroyedWhileRunning.fetch_add(1);
    }
    void operator()(int &tag) {
        if (tag != 777) gDestroyedWhileRunning.fetch_add(1);
        (*this)();
    }
    // an argument handed over as a temporary must have been stored by value in the task
    void operator()(std::string &text) {
        if (text != "a temporary std::string argument that does not fit the small buffer") gWrongArgument.fetch_add(1);
        (*this)();
    }
};

std::atomic<int> gFnTaskId{-1};
void functionTask(int &id) { runBody(id); }   // plain function pointer + lvalue argument (records are destroyed by the owner's bookkeeping below)

int gLvalueArg = 777;

struct Program {
    ThreadPool *pool = nullptr;
    rt::Rng rng;
    int maxThreads = 1;
    int sideWorkers = 0;               // idle workers of a second pool that lives next to the one under test
    std::set<int> threadsBeforePool;   // thread records that were alive before the pool under test existed (second pool, hosting worker)
    void noteThreadsBeforePool() {
        threadsBeforePool.clear();
        for (int i = 0, n = spy::threadCount(); i < n; ++i) { spy::ThreadRec *t = spy::thread(i); if (t->used.load() && !t->finished.load()) threadsBeforePool.insert(i); }
    }
    int nTasks = 0;
    int segment = 0;
    int drainedUpTo = 0;            // tasks [0, drainedUpTo) have been accounted for by a drain/clear/stop
    uint64_t createsAtEpochStart = 0;
    bool pendingKick = false;
    bool expiring = false;          // program with expiring workers: no per-epoch creation bound, no waiting for tasks       // a start() failed in thread creation: tasks may be queued with no worker alive
    rt::Hash hist;
    std::string log;

    explicit Program(uint64_t seed) : rng(seed) {}

    void note(const std::string &t) {
        log += t + " ";
        for (char ch : t) hist.add((uint64_t) ch);
        ++C.ops;
    }

    void submit() {
        if (nTasks >= kMaxTasks) return;
        int id = nTasks++;
        Rec &r = gRecs[id];
        r.epoch = gEpoch;
        r.segment = segment;
        r.dwellUs = rng.chance(500) ? (unsigned) rng.below(30) : (unsigned) rng.below(200);
        r.closure = rng.chance(250);
        r.orderKey = id;
        r.submit.store(spy::stamp());
        gPhase = "start";
        bool wasStopped = !pool->isRunning();
        // Fault injection (plain build only: on this path the unchanged pool leaks its half-built worker objects, which
        // LeakSanitizer would report although no property speaks about them): the worker thread cannot be created.
        // start() then throws; the task it was given still belongs to the pool and must run or be destroyed later.
        bool inject = kInjectCreateFailure && !pendingKick && !expiring && rng.chance(20);
        bool threw = false;
        if (inject) spy::failNextCreate();
        try {
        if (r.closure) {
            ++C.closures;
            note("startC" + std::to_string(id));
            unsigned how = (unsigned) rng.below(5);
            if (how == 0) pool->start(Closure(id));
            else if (how == 1) pool->start(Closure(id), gLvalueArg);
            else if (how == 4) pool->start(Closure(id), std::string("a temporary std::string argument that does not fit the small buffer"));
            else {
                // a named callable that goes out of scope (and is scribbled over) as soon as start() has returned:
                // the pool must have taken its own copy
                Closure named(id);
                if (how == 2) pool->start(named); else pool->start(named, gLvalueArg);
            }
        } else {
            note("start" + std::to_string(id));
            pool->start(new Task(id));
        }
        } catch (...) { threw = true; }   // how a failed thread creation is reported is not part of the statements
        if (inject) spy::cancelFailNextCreate();
        ++C.submitted;
        if (threw) {
            if (!inject) { fail("C08", "start-threw", "start", "start() threw although thread creation was not made to fail"); return; }
            note("(creation-failed)");
            ++C.startFailuresInjected;
            pendingKick = true;          // no worker may exist now: the next start() has to bring one up before anybody waits
            if (wasStopped) { ++C.restarts; createsAtEpochStart = spy::counters().creates.load(); }
            gPhase = "idle";
            return;
        }
        pendingKick = false;
        if (wasStopped) { ++C.restarts; createsAtEpochStart = spy::counters().creates.load() - 1; }
        int tc = pool->getThreadCount();
        C.maxWorkersSeen = std::max<uint64_t>(C.maxWorkersSeen, (uint64_t) tc);
        if (tc > maxThreads || tc < 1)
            fail("C08", "worker-count", "start", "getThreadCount() = " + std::to_string(tc) + " after start() with maximum " + std::to_string(maxThreads));
        if (!pool->isRunning()) fail("C08", "not-running-after-start", "start", "isRunning() is false after start()");
        int act = pool->getActiveThreadCount();
        if (act > tc || act < 0) fail("C08", "worker-count", "start", "getActiveThreadCount() = " + std::to_string(act) + " with getThreadCount() = " + std::to_string(tc));
        uint64_t created = spy::counters().creates.load() - createsAtEpochStart;
        if (!expiring && (int) created > maxThreads)
            fail("C08", "worker-count", "start", std::to_string(created) + " worker threads were created in one epoch with maximum " + std::to_string(maxThreads));
        gPhase = "idle";
    }

    // Several threads hand tasks to a running pool at the same moment. The statement speaks of one owner; this
    // goes beyond it, and the unchanged pool copes (queue and thread list are each under their mutex): the
    // worker count must still respect the maximum.
    void concurrentSubmit() {
        if (!pool->isRunning() || nTasks + 8 >= kMaxTasks) return;
        int k = (int) rng.range(3, 8);
        note("multistart" + std::to_string(k));
        gPhase = "start";
        std::atomic<int> go{0};
        std::vector<std::thread> th;
        int first = nTasks;
        for (int i = 0; i < k; ++i) {
            int id = nTasks++;
            Rec &r = gRecs[id];
            r.epoch = gEpoch; r.segment = segment; r.dwellUs = 20; r.closure = false; r.orderKey = first;
            r.submit.store(spy::stamp());
            ++C.submitted;
        }
        for (int i = 0; i < k; ++i)
            th.emplace_back([&, i] { while (!go.load()) sched_yield(); pool->start(new Task(first + i)); });
        go.store(1);
        for (auto &x : th) x.join();
        createsAtEpochStart += (uint64_t) k;   // the submitter threads are the harness's own, not workers
        ++C.concurrentSubmits;
        int tc = pool->getThreadCount();
        if (tc > maxThreads) fail("C08", "worker-count", "concurrent-start", "getThreadCount() = " + std::to_string(tc) + " after " + std::to_string(k) + " simultaneous start() calls with maximum " + std::to_string(maxThreads));
        gPhase = "idle";
    }

    // waits until every task of the current segment has run and been destroyed
    void drain() {
        if (pendingKick) submit();
        note("drain");
        ++C.drains;
        gPhase = "waitDrain";
        std::unique_lock l{gDoneM};
        gDoneCv.wait(l, [&] {
            for (int i = drainedUpTo; i < nTasks; ++i) if (gRecs[i].segment == segment && gRecs[i].dtors.load() == 0) return false;
            return true;
        });
        l.unlock();
        gPhase = "idle";
        for (int i = drainedUpTo; i < nTasks; ++i)
            if (gRecs[i].segment == segment && gRecs[i].runs.load() != 1)
                fail("C07", "task-not-run", "waitDrain", "task " + std::to_string(i) + " was destroyed without having run although neither clear() nor stop() followed its submission (runs=" + std::to_string(gRecs[i].runs.load()) + ")");
        drainedUpTo = nTasks;
    }

    void clear() {
        note("clear");
        ++C.clears;
        if (gRunningNow.load() > 0) ++C.clearsWithRunningTask;
        gPhase = "clear";
        pool->clear();
        gPhase = "idle";
        ++segment;
    }

    void stop(bool storm) {
        note(storm ? "STOP!" : "STOP");
        ++C.stops;
        if (gRunningNow.load() > 0) ++C.stopsWithRunningTask;
        // is some worker between "predicate evaluated" and "blocked" right now?
        for (int i = 0, n = spy::threadCount(); i < n; ++i) {
            spy::ThreadRec *t = spy::thread(i);
            if (t->used.load() && !t->finished.load() && t->park.load() == spy::CondPre && spy::watched(t->parkAddr.load())) { ++C.stopsWithWorkerInPreBlock; break; }
        }
        gPhase = "stop";
        pool->stop();
        uint64_t stopReturned = spy::stamp();
        gPhase = "idle";
        ++segment;
        // post-conditions
        if (pool->getThreadCount() != 0) fail("C08", "workers-after-stop", "stop", "getThreadCount() = " + std::to_string(pool->getThreadCount()) + " after stop() returned");
        if (pool->isRunning()) fail("C08", "running-after-stop", "stop", "isRunning() is true after stop()");
        // "after all worker threads have exited": a worker whose start routine has not returned yet (or that is still on its
        // way out) when stop() is back was not waited for
        int alive = 0;
        std::string recs;
        for (int i = 0, n = spy::threadCount(); i < n; ++i) {
            spy::ThreadRec *t = spy::thread(i);
            if (t->used.load() && !t->finished.load() && t->role.load() == -1 && !threadsBeforePool.count(i)) { ++alive; recs += " [thread #" + std::to_string(i) + " tid " + std::to_string(t->tid.load()) + "]"; }
        }
        if (alive != 0) fail("C08", "worker-thread-alive-after-stop", "stop", std::to_string(alive) + " thread(s) started by the pool still exist after stop() returned:" + recs);
        if (pool->getActiveThreadCount() != 0) fail("C08", "workers-after-stop", "stop", "getActiveThreadCount() = " + std::to_string(pool->getActiveThreadCount()) + " after stop() returned");
        if (gRunningNow.load() != 0) fail("C08", "task-running-after-stop", "stop", std::to_string(gRunningNow.load()) + " task(s) are running after stop() returned");
        for (int i = 0; i < nTasks && !gCaseFailed; ++i) {
            Rec &r = gRecs[i];
            if (r.dtors.load() != 1) fail("C08", "task-not-destroyed-by-stop", "stop", "task " + std::to_string(i) + " submitted before stop() has been destroyed " + std::to_string(r.dtors.load()) + " times after it returned");
            if (r.runEnter.load() > stopReturned) fail("C07", "run-after-stop", "stop", "task " + std::to_string(i) + " started running after stop() had returned");
        }
        drainedUpTo = nTasks;
        ++gEpoch;
    }

    void finalChecks() {
        std::vector<int> ranOrder;
        std::set<int> tids;
        for (int i = 0; i < nTasks; ++i) {
            Rec &r = gRecs[i];
            int runs = r.runs.load(), dt = r.dtors.load();
            if (runs > 1) return fail("C07", "ran-twice", "task", "task " + std::to_string(i) + " ran " + std::to_string(runs) + " times");
            if (dt != 1) return fail("C07", "destroyed-count", "task", "task " + std::to_string(i) + " was destroyed " + std::to_string(dt) + " times by the end of the program");
            if (runs == 1 && r.dtorStamp.load() < r.runExit.load()) return fail("C07", "destroyed-before-run-end", "task", "task " + std::to_string(i) + " was destroyed before its run() had returned");
            if (r.closure && r.copies.load() != 0) return fail("C07", "destroyed-count", "task", "closure task " + std::to_string(i) + " has " + std::to_string(r.copies.load()) + " copies left alive");
            if (runs) { ++C.ran; ranOrder.push_back(i); tids.insert(r.workerTid.load()); } else ++C.dropped;
        }
        if (gDestroyedWhileRunning.load()) return fail("C07", "destroyed-while-running", "task", std::to_string(gDestroyedWhileRunning.load()) + " task(s) were destroyed while their run() was executing");
        if (gDoubleRun.load()) return fail("C07", "ran-twice", "task", "a task's run() was entered twice");
        if (gWrongArgument.load()) return fail("C07", "wrong-argument", "task", "a closure task received a damaged copy of the argument that was handed to start() as a temporary");
        if (maxThreads == 1) {
            // one worker: tasks run in submission order
            // (tasks handed over simultaneously by several threads have no order among themselves)
            std::vector<std::pair<uint64_t, int>> byStart;
            for (int i : ranOrder) byStart.push_back({gRecs[i].runEnter.load(), i});
            std::sort(byStart.begin(), byStart.end());
            int lastKey = -1;
            for (auto &[e, i] : byStart) {
                if (gRecs[i].orderKey < lastKey) return fail("C07", "not-fifo", "task", "single worker: task " + std::to_string(i) + " ran after a task that was submitted later");
                lastKey = gRecs[i].orderKey;
            }
        }
    }

    // Programs with EXPIRING workers (C08's maximum and stop() clauses do not depend on expiry being off): a short
    // timeout set before the first start, idle periods longer than it, update() calls that let idle workers exit and
    // reap them. Tasks may legitimately sit in the queue while every worker has expired until the next start(), so
    // these programs never wait for tasks; they check the worker maximum after every start()/update() and the
    // post-conditions of stop().
    void runExpiring(int steps) {
        maxThreads = (int) rng.range(1, 4);
        expiring = true;
        noteThreadsBeforePool();
        pool = new ThreadPool();
        int timeoutMs = (int) rng.range(1, 4);
        pool->setExpiryTimeout(timeoutMs);
        pool->setMaxThreadCount(maxThreads);
        spy::unwatchAll();
        spy::watch(pool, sizeof(ThreadPool));
        note("expiry" + std::to_string(timeoutMs) + "ms");
        for (int st = 0; st < steps && !gCaseFailed; ++st) {
            rt::crumb("expiring pool max=%d step %d: %s", maxThreads, st, log.size() > 160 ? log.c_str() + log.size() - 160 : log.c_str());
            unsigned r = (unsigned) rng.below(100);
            if (r < 45) submit();
            else if (r < 65) { note("idle"); usleep((useconds_t) ((timeoutMs + rng.range(1, 4)) * 1000)); }
            else if (r < 88) {
                note("update");
                gPhase = "update";
                pool->update();
                gPhase = "idle";
                ++C.updates;
                if (pool->getThreadCount() > maxThreads) fail("C08", "worker-count", "update", "getThreadCount() exceeds the maximum after update()");
            }
            else stop(false);
        }
        if (!gCaseFailed) stop(false);
        if (!gCaseFailed && rng.chance(500)) { submit(); if (!gCaseFailed) stop(false); }
        if (!gCaseFailed) finalChecks();
        spy::disableDelays();
        ++C.expiringPrograms;
        if (!gCaseFailed) delete pool;
    }

    bool hosted = false;
    void run(int steps) {
        // 6% of the programs are run by a thread that is itself a worker of another pool (a job that owns a private pool):
        // every operation on the pool under test still comes from its one owning thread
        if (!hosted && rng.chance(60)) {
            hosted = true;
            ++C.programsOwnedByAWorkerOfAnotherPool;
            ThreadPool outer;
            outer.setExpiryTimeout(-1);
            outer.setMaxThreadCount(1);
            std::mutex m;
            std::condition_variable cv;
            bool done = false;
            outer.start([&]() {
                spy::self()->role.store(1001);
                run(steps);
                std::lock_guard l{m};
                done = true;
                cv.notify_all();
            });
            {   // blocked, not polling: a program that never ends must end in the quiescence verdict
                std::unique_lock l{m};
                cv.wait(l, [&] { return done; });
            }
            if (!gCaseFailed) outer.stop();
            return;
        }
        if (rng.chance(130)) return runExpiring(steps);
        maxThreads = (int) std::vector<int>{1, 1, 2, 3, 4, 8}[rng.below(6)];
        // "every maximum thread count >= 1": now and then a huge one (the number of workers is still bounded by the tasks)
        if (rng.chance(60)) { maxThreads = std::vector<int>{255, 256, 65535, 65536, 65537, 131072, 1 << 20, 1 << 24, 0x7fffffff}[rng.below(9)]; ++C.hugeMaximumPrograms; }
        if (maxThreads == 1) ++C.singleWorkerPrograms;
        // 15% of the programs run next to a second pool that has an idle worker of its own: pools share nothing
        ThreadPool *side = nullptr;
        if (rng.chance(150)) {
            side = new ThreadPool();
            side->setExpiryTimeout(-1);
            side->setMaxThreadCount(2);
            std::atomic<int> ran{0};
            side->start([&ran]() { ran.fetch_add(1); });
            while (!ran.load()) sched_yield();
            sideWorkers = side->getThreadCount();
            ++C.programsNextToASecondPool;
        }
        noteThreadsBeforePool();
        pool = new ThreadPool();
        pool->setExpiryTimeout(-1);     // non-expiring workers
        pool->setMaxThreadCount(maxThreads);
        if (pool->getMaxThreadCount() != maxThreads || pool->getExpiryTimeout() != -1) fail("C08", "getter", "setup", "getters do not return what was set");
        spy::unwatchAll();
        spy::watch(pool, sizeof(ThreadPool));
        createsAtEpochStart = spy::counters().creates.load();
        bool storm = rng.chance(400);   // stop storms: bursts of start followed by an immediate stop
        for (int st = 0; st < steps && !gCaseFailed; ++st) {
            rt::crumb("pool max=%d step %d: %s", maxThreads, st, log.size() > 160 ? log.c_str() + log.size() - 160 : log.c_str());
            unsigned r = (unsigned) rng.below(1000);
            if (storm) {
                int k = (int) rng.range(0, 6);
                for (int i = 0; i < k && !gCaseFailed; ++i) submit();
                unsigned how = (unsigned) rng.below(5);
                if (how == 1 && k) { while (gFinishedEvents.load() == 0 && gRunningNow.load() == 0 && rng.below(2000)) sched_yield(); }
                else if (how == 2 && k) drain();
                else if (how >= 3 && k) {
                    // clear() while the workers are busy taking tasks off the same queue
                    if (how == 4) sched_yield();
                    clear();
                    if (rng.chance(500)) continue;
                }
                if (!gCaseFailed) stop(true);
                continue;
            }
            if (r < 540) submit();
            else if (r < 560) concurrentSubmit();
            else if (r < 660) drain();
            else if (r < 740) clear();
            else if (r < 860) stop(false);
            else if (r < 930) { note("yield"); usleep((useconds_t) rng.below(150)); }
            else {
                note("getters");
                if (rng.chance(500)) pool->update();   // nothing to reap: the workers of this pool never expire
                int tc = pool->getThreadCount();
                if (tc > maxThreads) fail("C08", "worker-count", "getters", "getThreadCount() exceeds the maximum");
            }
        }
        if (!gCaseFailed) {
            if (rng.chance(500) && pool->isRunning()) drain();
            if (!gCaseFailed) stop(false);
            // a stopped pool is restartable: one more task must run
            if (!gCaseFailed && rng.chance(600)) { submit(); if (!gCaseFailed) drain(); if (!gCaseFailed) stop(false); }
        }
        if (!gCaseFailed) finalChecks();
        spy::disableDelays();
        if (!gCaseFailed) delete pool;   // all workers are gone after stop()
        if (side && !gCaseFailed) { side->stop(); delete side; }
    }
};

void onDeadlock(const std::string &desc) {
    const char *prop = "C08", *rule = "stop-never-returns";
    if (!strcmp(gPhase, "waitDrain")) { prop = gEpoch > 0 ? "C08" : "C07"; rule = gEpoch > 0 ? "restart-task-never-runs" : "task-never-runs"; }
    else if (strcmp(gPhase, "stop")) rule = "pool-operation-blocked";
    rt::violation(prop, rule, gPhase, gDesc + ": phase " + gPhase + ": every thread is blocked and nothing can wake it: " + desc);
}

} // namespace

int main(int argc, char **argv) {
    rt::init(argc, argv);
    spy::self()->role.store(1000);
    spy::startMonitor(onDeadlock, (unsigned) rt::optInt("watchdog", 300));
    int maxSteps = (int) rt::optInt("steps", 40);
    for (uint64_t c = rt::st().from; c < rt::st().from + rt::st().count; ++c) {
        rt::setCase(c);
        rt::Rng rng(rt::mix(rt::st().seed, c));
        gCaseFailed = false;
        gEpoch = 0;
        delete[] gRecs;
        gRecs = new Rec[kMaxTasks];
        gRunningNow.store(0);
        gDestroyedWhileRunning.store(0);
        gDoubleRun.store(0);
        gWrongArgument.store(0);
        gFinishedEvents.store(0);
        spy::Delays d;
        int profile = (int) rng.below(4);
        if (profile == 1) { d.condEntry = 500; d.maxUs = 200; d.threadExit = 300; d.threadStartMaxUs = 300; }
        else if (profile == 2) { d.condEntry = 250; d.afterWake = 200; d.beforeLock = 80; d.afterUnlock = 80; d.beforeNotify = 150; d.threadStart = 300; d.afterCreate = 300; d.maxUs = 120; d.spurious = 100; d.threadStartMaxUs = 500; d.threadExit = 300; }
        else if (profile == 3) { d.condEntry = 900; d.maxUs = 500; d.beforeNotify = 300; }
        int cpus = rng.chance(300) ? 1 : rng.chance(300) ? 2 : 0;
        spy::pinCpus(cpus, (int) rt::optInt("cpubase", 0));
        spy::configure(d, rt::mix(rt::st().seed, c));
        if (!profile) spy::disableDelays();
        int steps = (int) rng.range(4, maxSteps);
        char desc[160];
        snprintf(desc, sizeof desc, "pool program seed-case %" PRIu64 " steps=%d delayProfile=%d cpus=%d", c, steps, profile, cpus);
        gDesc = desc;
        Program p(rng.next());
        p.run(steps);
        gDesc += " max=" + std::to_string(p.maxThreads) + " ops: " + (p.log.size() > 300 ? p.log.substr(0, 300) + "..." : p.log);
        ++C.programs;
        if (C.stops && p.nTasks >= 2) {
            ++C.nontrivialCases;
            C.fps.push_back(p.hist.get());
        }
        if (C.samples.size() < 4 && c % 13 == 0) C.samples.push_back(rt::Json().kv("case", c).kv("maxThreads", p.maxThreads).kv("delayProfile", profile).kv("cpus", cpus).kv("program", p.log.substr(0, 400)).str());
        spy::pinCpus(0);
        spy::recycle();
        if (gCaseFailed) break;   // workers of a failed case may still be alive: stop here, the driver continues with the next case
    }
    spy::stopMonitor();
    rt::dumpFingerprints(C.fps);
    auto &k = spy::counters();
    if (gCaseFailed) {
        // report what was done, then leave without running destructors under live workers
        rt::finish(rt::Json().kv("engine", "h_pool").kv("programs", C.programs).kv("aborted", true));
        _exit(5);
    }
    rt::finish(rt::Json().kv("engine", "h_pool").kv("programs", C.programs).kv("ops", C.ops).kv("tasksSubmitted", C.submitted).kv("tasksRan", C.ran)
                   .kv("tasksDropped", C.dropped).kv("closureTasks", C.closures).kv("stops", C.stops).kv("clears", C.clears).kv("drains", C.drains)
                   .kv("restarts", C.restarts).kv("concurrentSubmitBursts", C.concurrentSubmits).kv("threadCreationFailuresInjected", C.startFailuresInjected).kv("programsWithExpiringWorkers", C.expiringPrograms).kv("updateCalls", C.updates).kv("stopsWithRunningTask", C.stopsWithRunningTask).kv("clearsWithRunningTask", C.clearsWithRunningTask)
                   .kv("stopsWithWorkerInPreBlockWindow", C.stopsWithWorkerInPreBlock).kv("singleWorkerPrograms", C.singleWorkerPrograms).kv("hugeMaximumPrograms", C.hugeMaximumPrograms).kv("programsNextToASecondPool", C.programsNextToASecondPool).kv("programsOwnedByAWorkerOfAnotherPool", C.programsOwnedByAWorkerOfAnotherPool)
                   .kv("maxWorkersSeen", C.maxWorkersSeen).kv("nontrivialCases", C.nontrivialCases)
                   .kv("delaysCondEntry", k.condEntry.load()).kv("delaysAfterWake", k.afterWake.load()).kv("delaysOther", k.beforeLock.load() + k.afterUnlock.load() + k.beforeNotify.load() + k.threadStart.load())
                   .kv("workerThreadsCreated", k.creates.load()).kv("poolCondWaits", k.watchedCondWaits.load())
                   .raw("samples", rt::jsonArray(C.samples, false)));
    return 0;
}
