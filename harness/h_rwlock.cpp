// Engine for C01 C02 C03 C12: tulz::rwp::Resource under free-running stress and
// scripted arrival patterns, observed through the pthread interposer.
//
// One case = one run (mode=stress) or one scripted pattern (mode=pattern).
// Oracles (DESIGN.md section 3):
//   C01 occupancy word checked at the instant a section is entered, plus a
//       two-word data invariant that a writer/anyone overlap tears;
//   C02 quiescence oracle (definitive deadlock) + idle probe after the run;
//   C03 pairwise rule: A observed parked before B was issued, not both
//       readers  =>  unlock_call(A) < lock_return(B);
//   C12 a reader never parks unless some writer's [issue, unlock_return]
//       overlaps its [issue, lock_return]; batches of readers rendezvous
//       inside the section (a lock that admits them one by one deadlocks).
#include "../rt/rt.h"
#include "../rt/syncspy.h"

#include <tulz/threading/rwp/ReadLock.h>
#include <tulz/threading/rwp/Resource.h>
#include <tulz/threading/rwp/WriteLock.h>

#include <algorithm>
#include <condition_variable>
#include <mutex>
#include <sched.h>
#include <thread>

using tulz::rwp::ReadLock;
using tulz::rwp::Resource;
using tulz::rwp::WriteLock;

namespace {

enum : uint8_t { R = 0, W = 1 };

struct Section {
    uint8_t type = R, api = 0;
    uint64_t issue = 0, park = 0, ret = 0, ucall = 0, uret = 0;
};

struct Shared {
    Resource *res = nullptr;
    Resource *other = nullptr;             // a second Resource that is only ever read-locked: some requests are issued while holding it
    std::atomic<uint64_t> occ{0};          // writers<<32 | readers
    volatile uint64_t x = 0, y = ~0ULL;    // writers keep y == ~x; anyone inside checks it
    std::atomic<int> go{0};
};

Shared g;
const char *gPhase = "stress";
std::string gCaseDesc;

// totals (evidence)
struct Totals {
    uint64_t runs = 0, patterns = 0, sections = 0, reads = 0, writes = 0, parks = 0;
    uint64_t maxReaders = 0, batches2 = 0, windowHits = 0, idleAsleepHits = 0, runsWithHit = 0;
    uint64_t pairsWW = 0, pairsWR = 0, pairsRW = 0, pairsLive = 0, maxQueue = 0;
    uint64_t idleProbes = 0, readerParksJudged = 0, readersNoWriter = 0, rendezvous = 0, rendezvousReaders = 0;
    uint64_t predictedParks = 0, predictedFast = 0, lateArrivalPatterns = 0, lateArrivals = 0;
    std::atomic<uint64_t> nestedSections{0}, nestedSameResource{0};
    uint64_t deepQueues = 0, readerCrowds = 0, simultaneousCrowds = 0, longHolds = 0, marathonRequests = 0, marathonHandovers = 0;
    std::vector<uint64_t> fps;          // fingerprints of non-trivial cases
    std::vector<std::string> samples;
} T;

std::atomic<uint64_t> gMaxReaders{0};

inline void dwell(rt::Rng &rng, unsigned maxUs) {
    uint64_t r = rng.next();
    unsigned us = maxUs ? (unsigned) ((r >> 8) % (maxUs + 1)) : 0;
    switch (r % 4) {
        case 0: break;
        case 1: sched_yield(); break;
        case 2: {
            auto t0 = std::chrono::steady_clock::now();
            while (std::chrono::steady_clock::now() - t0 < std::chrono::microseconds(us)) {}
            break;
        }
        default: std::this_thread::sleep_for(std::chrono::microseconds(us));
    }
}

// Enter/leave the critical section as seen by the monitor. Called strictly
// between the return of lock*() and the call of unlock*().
inline void enterSection(uint8_t type, const char *site) {
    if (type == R) {
        uint64_t prev = g.occ.fetch_add(1);
        if (prev >> 32)
            rt::violation("C01", "overlap", site,
                          "reader entered while " + std::to_string(prev >> 32) + " writer(s) hold the lock");
        uint64_t now = (prev & 0xffffffffu) + 1, m = gMaxReaders.load();
        while (now > m && !gMaxReaders.compare_exchange_weak(m, now)) {}
    } else {
        uint64_t prev = g.occ.fetch_add(1ULL << 32);
        if (prev)
            rt::violation("C01", "overlap", site,
                          "writer entered while " + std::to_string(prev >> 32) + " writer(s) and " +
                              std::to_string(prev & 0xffffffffu) + " reader(s) hold the lock");
    }
}
inline void leaveSection(uint8_t type) {
    if (type == R) g.occ.fetch_sub(1);
    else g.occ.fetch_sub(1ULL << 32);
}
inline void checkData(const char *site) {
    uint64_t a = g.x, b = g.y;
    if (b != ~a) rt::violation("C01", "torn-data", site, "reader saw the writer's two-word invariant broken");
}

// one critical section; body runs between enter and leave
template<class Body>
void section(uint8_t type, uint8_t api, Section &s, const char *site, Body &&body, bool nested = false) {
    // state kept per thread instead of per Resource would leak from one lock into the other
    struct Outer { Resource *r; ~Outer() { if (r) r->unlockRead(); } } outer{nested ? g.other : nullptr};
    if (nested) { g.other->lockRead(); ++T.nestedSections; }
    spy::ThreadRec *me = spy::self();
    s.type = type;
    s.api = api;
    me->firstWatchedPark = 0;
    s.issue = spy::stamp();
    auto inside = [&] {
        me->scope.store(0, std::memory_order_relaxed);
        s.park = me->firstWatchedPark;
        s.ret = spy::stamp();
        enterSection(type, site);
        if (type == W) {
            uint64_t v = s.ret;
            g.x = v;
            body();
            g.y = ~v;
        } else {
            checkData(site);
            body();
            checkData(site);
        }
        leaveSection(type);
        s.ucall = spy::stamp();
        me->scope.store(1, std::memory_order_relaxed);
    };
    me->scope.store(1, std::memory_order_relaxed);   // inside lock*/unlock* of the Resource under test
    if (api == 0) {
        if (type == R) { g.res->lockRead(); inside(); g.res->unlockRead(); }
        else { g.res->lockWrite(); inside(); g.res->unlockWrite(); }
    } else {
        if (type == R) { ReadLock l{*g.res}; inside(); }
        else { WriteLock l{*g.res}; inside(); }
    }
    me->scope.store(0, std::memory_order_relaxed);
    s.uret = spy::stamp();
}

// ------------------------------------------------------------------ offline oracles
using Hist = std::vector<std::vector<Section>>;   // per thread, in program order

void judgeFifo(const Hist &h, const char *site) {
    size_t nT = h.size();
    for (size_t tb = 0; tb < nT; ++tb)
        for (const Section &b : h[tb]) {
            uint64_t parkedNow = 0;
            for (size_t ta = 0; ta < nT; ++ta) {
                if (ta == tb) continue;
                const auto &v = h[ta];
                // last section of thread ta issued before b
                auto it = std::upper_bound(v.begin(), v.end(), b.issue,
                                           [](uint64_t x, const Section &s) { return x < s.issue; });
                if (it == v.begin()) continue;
                const Section &a = *(it - 1);
                if (!a.park || a.park >= b.issue) continue;      // not observed parked before b was issued
                if (a.ret > b.issue) ++parkedNow;
                if (a.type == R && b.type == R) continue;        // readers may be granted together
                bool live = a.ucall > b.issue;                   // a was still waiting or inside when b arrived
                if (live) {
                    ++T.pairsLive;
                    if (a.type == W && b.type == W) ++T.pairsWW;
                    else if (a.type == W) ++T.pairsWR;
                    else ++T.pairsRW;
                }
                if (!(a.ucall < b.ret)) {
                    char d[256];
                    snprintf(d, sizeof d,
                             "%s request parked at stamp %" PRIu64 " (thread %zu) was overtaken by %s request issued at %" PRIu64
                             " (thread %zu): granted at %" PRIu64 " before the earlier one unlocked at %" PRIu64,
                             a.type == W ? "write" : "read", a.park, ta, b.type == W ? "write" : "read", b.issue, tb,
                             b.ret, a.ucall);
                    rt::violation("C03", "overtaken", site, d);
                }
            }
            T.maxQueue = std::max(T.maxQueue, parkedNow);
        }
}

void judgeReaderParks(const Hist &h, const char *site) {
    size_t nT = h.size();
    std::vector<std::vector<const Section *>> writers(nT);
    for (size_t t = 0; t < nT; ++t)
        for (auto &s : h[t]) if (s.type == W) writers[t].push_back(&s);
    for (size_t t = 0; t < nT; ++t)
        for (const Section &r : h[t]) {
            if (r.type != R) continue;
            bool overlap = false;
            for (size_t tw = 0; tw < nT && !overlap; ++tw) {
                auto &v = writers[tw];
                auto it = std::upper_bound(v.begin(), v.end(), r.issue,
                                           [](uint64_t x, const Section *s) { return x < s->uret; });
                if (it != v.end() && (*it)->issue < r.ret) overlap = true;
            }
            if (!overlap) {
                ++T.readersNoWriter;
                if (r.park) {
                    char d[200];
                    snprintf(d, sizeof d,
                             "read request issued at %" PRIu64 " (thread %zu) parked at %" PRIu64
                             " although no write request was active or waiting between its issue and its grant",
                             r.issue, t, r.park);
                    rt::violation("C12", "reader-parked-without-writer", site, d);
                }
            } else if (r.park) ++T.readerParksJudged;
        }
}

// batches (runs of read grants with no write grant between) and the windows the properties name
uint64_t countWindows(const Hist &h) {
    std::vector<const Section *> all;
    for (auto &v : h) for (auto &s : v) all.push_back(&s);
    std::sort(all.begin(), all.end(), [](auto *a, auto *b) { return a->ret < b->ret; });
    uint64_t hits = 0;
    size_t i = 0;
    while (i < all.size()) {
        if (all[i]->type == W) { ++i; continue; }
        size_t j = i;
        uint64_t parked = 0, minUcall = ~0ULL, maxUcallPrev = 0;
        bool hit = false, idleHit = false;
        for (; j < all.size() && all[j]->type == R; ++j) {
            const Section *s = all[j];
            if (s->park) {
                ++parked;
                if (minUcall < s->ret) hit = true;                         // a sibling finished before this one resumed
                if (j > i && maxUcallPrev && maxUcallPrev < s->ret) idleHit = true;   // all earlier members were gone
            }
            minUcall = std::min(minUcall, s->ucall);
            maxUcallPrev = std::max(maxUcallPrev, s->ucall);
        }
        if (parked >= 2) ++T.batches2;
        if (hit && parked >= 1) { ++T.windowHits; ++hits; }
        if (idleHit) ++T.idleAsleepHits;
        i = j;
    }
    return hits;
}

uint64_t fingerprint(const Hist &h, size_t limit) {
    std::vector<std::pair<uint64_t, uint32_t>> ev;
    for (size_t t = 0; t < h.size(); ++t)
        for (auto &s : h[t]) {
            ev.push_back({s.ret, (uint32_t) (t * 4 + s.type)});
            ev.push_back({s.ucall, (uint32_t) (t * 4 + 2 + s.type)});
        }
    std::sort(ev.begin(), ev.end());
    rt::Hash hs;
    for (size_t i = 0; i < ev.size() && i < limit; ++i) hs.add(ev[i].second);
    return hs.get();
}

void tally(const Hist &h) {
    for (auto &v : h)
        for (auto &s : v) {
            ++T.sections;
            if (s.type == R) ++T.reads; else ++T.writes;
            if (s.park) ++T.parks;
        }
}

// After everything was released the Resource must be idle again: the next
// write and the next reads are granted without waiting.
void idleProbe(const char *site) {
    spy::ThreadRec *me = spy::self();
    uint64_t before = me->watchedParks;
    gPhase = "idle-probe";
    g.res->lockWrite();
    g.res->unlockWrite();
    g.res->lockRead();
    g.res->lockRead();
    g.res->unlockRead();
    g.res->unlockRead();
    { WriteLock l{*g.res}; }
    if (me->watchedParks != before)
        rt::violation("C02", "not-idle-after-release", site,
                      "a request on the fully released Resource had to wait (" +
                          std::to_string(me->watchedParks - before) + " cond_wait entries)");
    ++T.idleProbes;
}

void freshResource() {
    delete g.res;
    delete g.other;
    g.res = new Resource();
    g.other = new Resource();
    spy::unwatchAll();
    spy::watch(g.res, sizeof(Resource));
    g.occ.store(0);
    g.x = 0;
    g.y = ~0ULL;
    g.go.store(0);
}

// ------------------------------------------------------------------ stress
void runStress(uint64_t caseIdx, rt::Rng rng) {
    static const int threadChoices[] = {2, 3, 4, 6, 8, 12, 16, 24, 32};
    static const int wpChoices[] = {50, 250, 500, 1000, 120, 20};
    static const int cpuChoices[] = {1, 2, 4, 0};
    int maxThreads = (int) rt::optInt("maxthreads", 32);
    int nT;
    do nT = threadChoices[rng.below(9)]; while (nT > maxThreads);
    int wp = (int) rt::optInt("wp", -1);
    if (wp < 0) wp = wpChoices[rng.below(6)];
    int cpus = cpuChoices[rng.below(4)];
    long ops = rt::optInt("ops", 20000);
    int perThread = (int) std::max<long>(20, ops / nT);
    unsigned dwellUs = (unsigned) rng.below(3) * 25;
    spy::Delays d;
    int profile = (int) rng.below(5);
    // profile 4: threads are held up right before they take the Resource's internal mutex (in lock() and in
    // unlock()), and sections are long: widens windows between a lock-free step and the mutex-protected one
    if (profile == 4) { d.beforeLock = 350; d.afterUnlock = 100; d.maxUs = 250; dwellUs = 150; }
    if (profile == 1) { d.afterWake = 300; d.maxUs = 150; }
    else if (profile == 2) { d.afterWake = 150; d.condEntry = 100; d.beforeLock = 200; d.afterUnlock = 60; d.beforeNotify = 100; d.maxUs = 80; d.spurious = 80; }
    else if (profile == 3) { d.afterWake = 700; d.beforeLock = 60; d.maxUs = 400; d.threadStart = 300; d.spurious = 200; }
    spy::configure(d, rt::mix(rt::st().seed, caseIdx));
    if (!profile) spy::disableDelays();
    spy::pinCpus(cpus, (int) rt::optInt("cpubase", 0));

    char desc[200];
    snprintf(desc, sizeof desc, "stress threads=%d writePermille=%d cpus=%d sections/thread=%d delayProfile=%d dwellUs<=%u",
             nT, wp, cpus, perThread, profile, dwellUs);
    gCaseDesc = desc;
    rt::crumb("%s", desc);
    gPhase = "stress";
    freshResource();

    Hist h(nT);
    std::vector<std::thread> th;
    for (int t = 0; t < nT; ++t) {
        h[t].resize(perThread);
        th.emplace_back([&, t, seed = rng.next()] {
            rt::Rng r(seed);
            spy::self()->role.store(t);
            while (!g.go.load(std::memory_order_acquire)) sched_yield();
            for (int k = 0; k < perThread; ++k) {
                uint8_t type = r.chance(wp) ? W : R;
                section(type, (uint8_t) r.below(2), h[t][k], "stress", [&] {
                    dwell(r, dwellUs);
                    // writer-free runs: the same thread takes the read lock again while it holds it (ResourceTest::SimultaneousRead
                    // does that on one thread); with no writer anywhere this must never wait
                    if (wp == 0 && r.chance(150)) {
                        spy::ThreadRec *me = spy::self();
                        uint64_t before = me->watchedParks;
                        if (r.chance(500)) { g.res->lockRead(); g.res->unlockRead(); } else { ReadLock again{*g.res}; }
                        if (me->watchedParks != before) rt::violation("C12", "reader-parked-without-writer", "stress", "a nested read lock of the same thread had to wait in a writer-free run");
                        T.nestedSameResource.fetch_add(1, std::memory_order_relaxed);
                    }
                }, r.chance(100));
                if (r.chance(200)) dwell(r, dwellUs);
                spy::noteProgress();
            }
        });
    }
    g.go.store(1, std::memory_order_release);
    for (auto &x : th) x.join();
    spy::disableDelays();

    tally(h);
    judgeFifo(h, "stress");
    judgeReaderParks(h, "stress");
    uint64_t hits = countWindows(h);
    idleProbe("stress");
    ++T.runs;
    if (hits) {
        ++T.runsWithHit;
        T.fps.push_back(fingerprint(h, 4000));
    }
    if (T.samples.size() < 3)
        T.samples.push_back(rt::Json().kv("case", caseIdx).kv("what", desc).kv("windowHitsSoFar", T.windowHits).str());
    spy::pinCpus(0);
}

// ------------------------------------------------------------------ scripted patterns
struct Barrier {
    std::mutex m;
    std::condition_variable cv;
    int need = 0, have = 0;
    void arrive() {
        std::unique_lock l{m};
        if (++have >= need) cv.notify_all();
        else cv.wait(l, [&] { return have >= need; });
    }
};

void runPattern(uint64_t caseIdx, rt::Rng rng) {
    // case index -> (holder, word): every word of length 1..6 first, then random longer ones
    uint8_t holder;
    std::vector<uint8_t> word;
    bool forceRendezvous = false;
    uint64_t idx = caseIdx % 100000;   // blocks of 100000 cases re-enumerate with other timing
    if (idx < 252) {
        holder = idx & 1;
        uint64_t k = idx >> 1;
        int len = 1;
        while (k >= (1ULL << len)) { k -= 1ULL << len; ++len; }
        for (int i = 0; i < len; ++i) word.push_back((k >> i) & 1);
    } else if (idx % 89 == 7) {
        // a very deep queue: 70-160 requests, mostly writers so that they do not merge, parked behind one holder
        unsigned shape = (unsigned) ((idx / 89) % 10);   // cycles, so that even a short run sees each shape
        if (shape < 2) {
            // more than 255 readers inside at the same time without any writer around (each comes in on the uncontended
            // path and, in rendezvous runs, stays until all of them are inside), then a writer: it waits for all of them
            holder = R;
            int len = (int) rng.range(257, 330);
            for (int i = 0; i < len; ++i) word.push_back(R);
            word.push_back(W);
            forceRendezvous = true;
            ++T.simultaneousCrowds;
        } else if (shape < 5) {
            // one crowd of more than 255 readers queued behind a writer: they form a single batch
            holder = W;
            int len = (int) rng.range(257, 330);
            for (int i = 0; i < len; ++i) word.push_back(R);
            ++T.readerCrowds;
        } else {
            holder = rng.below(2);
            int len = (int) rng.range(70, 160);
            for (int i = 0; i < len; ++i) word.push_back(rng.below(100) < 85 ? W : R);
            ++T.deepQueues;
        }
    } else {
        holder = rng.below(2);
        int len = (int) rng.range(7, 10);
        int wp = (int) rng.range(15, 60);
        for (int i = 0; i < len; ++i) word.push_back(rng.below(100) < (uint64_t) wp ? W : R);
    }
    bool rendezvous = rng.chance((unsigned) rt::optInt("rdv", 300)) || forceRendezvous;
    // late arrivals: one request of the first wave (the pivot) keeps the lock until a second wave has
    // arrived, so that requests also arrive while queued requests of the first wave are being served
    size_t pivot = 0;
    std::vector<uint8_t> word2;
    if (!rendezvous && rng.chance((unsigned) rt::optInt("late", 450))) {
        pivot = 1 + rng.below(word.size());
        int len2 = (int) rng.range(1, 4);
        for (int i = 0; i < len2; ++i) word2.push_back(rng.chance(450) ? W : R);
    }
    int cpus = (int) (rng.below(3) == 0 ? 1 : 0);
    spy::Delays d;
    int profile = (int) rng.below(3);
    if (profile == 1) { d.afterWake = 400; d.maxUs = 200; }
    else if (profile == 2) { d.afterWake = 200; d.condEntry = 150; d.beforeLock = 50; d.afterUnlock = 80; d.beforeNotify = 150; d.maxUs = 100; d.spurious = 150; }
    spy::configure(d, rt::mix(rt::st().seed, caseIdx));
    if (!profile) spy::disableDelays();
    spy::pinCpus(cpus, (int) rt::optInt("cpubase", 0));

    std::string ws;
    for (auto c : word) ws += c == W ? 'W' : 'R';
    if (pivot) { ws += " then, while #" + std::to_string(pivot) + " holds, "; for (auto c : word2) ws += c == W ? 'W' : 'R'; }
    if (ws.size() > 150) ws = ws.substr(0, 60) + "...(" + std::to_string(word.size()) + " arrivals)";
    char desc[260];
    snprintf(desc, sizeof desc, "pattern holder=%c arrivals=%s rendezvous=%d cpus=%d delayProfile=%d", holder == W ? 'W' : 'R',
             ws.c_str(), (int) rendezvous, cpus, profile);
    gCaseDesc = desc;
    rt::crumb("%s", desc);
    gPhase = rendezvous ? "rendezvous" : "pattern";
    freshResource();

    // exact prediction (arrivals are serialised by the controller):
    // which requests take the fast path, and the batches in grant order
    size_t n = word.size();
    std::vector<int> batchOf(n + 1, -1);          // index 0 = holder
    std::vector<bool> expectPark(n + 1, false);
    std::vector<int> batchSize;                    // readers only; writers are batches of one
    {
        bool queueEmpty = true;
        uint8_t lastQueued = holder;
        int cur = 0;
        batchOf[0] = 0;
        batchSize.push_back(0);                    // batch 0 = holder + fast-path readers (holder not counted)
        for (size_t i = 0; i < n; ++i) {
            if (queueEmpty && holder == R && word[i] == R) {
                batchOf[i + 1] = 0;
                ++batchSize[0];
            } else {
                expectPark[i + 1] = true;
                if (queueEmpty || word[i] == W || lastQueued == W) {
                    ++cur;
                    batchSize.push_back(0);
                }
                batchOf[i + 1] = cur;
                if (word[i] == R) ++batchSize[cur];
                queueEmpty = false;
                lastQueued = word[i];
            }
        }
    }
    std::vector<Barrier> barriers(batchSize.size());
    for (size_t b = 0; b < batchSize.size(); ++b) barriers[b].need = batchSize[b];

    size_t total = n + word2.size();
    Hist h(total + 1);
    for (auto &v : h) v.resize(1);
    std::vector<std::atomic<int>> state(total + 1);   // 0 not started, 1 calling lock, 2 inside, 3 done
    for (auto &s : state) s.store(0);
    std::vector<std::atomic<int>> spyIndex(total + 1);
    for (auto &s : spyIndex) s.store(-1);
    std::vector<std::thread> th;
    std::atomic<int> release{0}, release2{0};
    std::mutex stM;
    std::condition_variable stCv;

    auto body = [&](size_t i, uint64_t seed) {
        rt::Rng r(seed);
        spy::ThreadRec *me = spy::self();
        me->role.store((int) i);
        spyIndex[i].store(me->index, std::memory_order_release);
        uint8_t type = i == 0 ? holder : i <= n ? word[i - 1] : word2[i - n - 1];
        state[i].store(1, std::memory_order_release);
        section(type, (uint8_t) r.below(2), h[i][0], gPhase, [&] {
            state[i].store(2, std::memory_order_release);
            if (i == pivot && pivot) { std::lock_guard l{stM}; stCv.notify_all(); }
            if (i == 0) {
                while (!release.load(std::memory_order_acquire)) dwell(r, 30);
            } else if (i == pivot && pivot) {
                while (!release2.load(std::memory_order_acquire)) dwell(r, 30);
            } else {
                if (rendezvous && type == R && barriers[batchOf[i]].need >= 2) {
                    barriers[batchOf[i]].arrive();
                    ++T.rendezvousReaders;
                }
                dwell(r, 120);
            }
        }, i != 0 && r.chance(250));
        state[i].store(3, std::memory_order_release);
    };

    // starts request i and waits until it is observed parked inside lock*() on this Resource, or has been granted
    auto arrive = [&](size_t i) {
        th.emplace_back(body, i, rng.next());
        for (;;) {
            int s = state[i].load(std::memory_order_acquire);
            if (s >= 2) break;
            if (s == 1 && spyIndex[i].load(std::memory_order_acquire) >= 0) {
                spy::ThreadRec *t = spy::thread(spyIndex[i].load());
                int p = t->park.load();
                if ((p == spy::CondPre || p == spy::CondBlocked) && (spy::watched(t->parkAddr.load()) || t->scope.load())) break;
            }
            sched_yield();
        }
    };
    th.emplace_back(body, 0, rng.next());
    while (state[0].load(std::memory_order_acquire) < 2) sched_yield();
    for (size_t i = 1; i <= n; ++i) arrive(i);
    // one case per job may be told to keep the first holder inside for seconds while the others are queued: a request
    // that gives up waiting after a bounded time only shows beyond its bound
    if (rt::optInt("longhold", 0) > 0 && caseIdx == rt::st().from) { usleep((useconds_t) rt::optInt("longhold", 0) * 1000); ++T.longHolds; }
    release.store(1, std::memory_order_release);
    if (pivot) {
        {   // blocked in a condvar, so that a pivot that is never granted ends in the quiescence verdict
            std::unique_lock l{stM};
            stCv.wait(l, [&] { return state[pivot].load(std::memory_order_acquire) >= 2; });
        }
        for (size_t i = n + 1; i <= total; ++i) arrive(i);
        ++T.lateArrivalPatterns;
        T.lateArrivals += word2.size();
        release2.store(1, std::memory_order_release);
    }
    for (auto &x : th) x.join();
    spy::disableDelays();

    // prediction vs observation
    std::string parkedStr;
    for (size_t i = 1; i <= n; ++i) {
        bool parked = h[i][0].park != 0;
        parkedStr += parked ? 'p' : '.';
        if (expectPark[i]) ++T.predictedParks; else ++T.predictedFast;
        if (parked && !expectPark[i])
            rt::violation("C12", "reader-parked-without-writer", gPhase,
                          std::string(desc) + ": reader #" + std::to_string(i) +
                              " arrived while only readers held the lock and nothing was queued, yet it waited");
        // (a request that should have queued but was granted at once is an overlap or an overtaking: judged below)
    }
    tally(h);
    judgeFifo(h, gPhase);
    judgeReaderParks(h, gPhase);
    uint64_t hits = countWindows(h);
    idleProbe(gPhase);
    ++T.patterns;
    if (rendezvous) ++T.rendezvous;

    // grant order fingerprint
    std::vector<std::pair<uint64_t, size_t>> order;
    for (size_t i = 0; i <= total; ++i) order.push_back({h[i][0].ret, i});
    std::sort(order.begin(), order.end());
    rt::Hash hs;
    hs.add(holder);
    for (auto c : word) hs.add(c);
    hs.add(pivot);
    for (auto c : word2) hs.add(c);
    for (auto &o : order) hs.add(o.second);
    hs.add(hits ? 1 : 0);
    if (n >= 2) T.fps.push_back(hs.get());
    if (T.samples.size() < 6 && (caseIdx % 7 == 3 || hits)) {
        std::string go;
        for (auto &o : order) go += std::to_string(o.second) + " ";
        T.samples.push_back(rt::Json().kv("case", caseIdx).kv("what", desc).kv("parked", parkedStr)
                                .kv("grantOrder", go).kv("windowHit", hits > 0).str());
    }
    spy::pinCpus(0);
}

// ------------------------------------------------------------------ marathon: one very long busy period
// Every holder releases only after somebody else is parked on the Resource, so the queue never drains and the
// Resource never passes through its idle state: whatever it counts per busy period (tickets) keeps growing.
void runMarathon(uint64_t caseIdx, rt::Rng rng) {
    int nT = (int) rng.range(3, 6);
    long total = rt::optInt("marathon", 90000);
    int wp = (int) rng.range(300, 700);
    char desc[200];
    snprintf(desc, sizeof desc, "marathon threads=%d writePermille=%d requests=%ld in one uninterrupted busy period", nT, wp, total);
    gCaseDesc = desc;
    rt::crumb("%s", desc);
    gPhase = "marathon";
    spy::disableDelays();
    spy::pinCpus(0);
    freshResource();
    std::atomic<long> left{total};
    std::atomic<uint64_t> parked{0}, handovers{0};
    std::vector<std::thread> th;
    for (int t = 0; t < nT; ++t)
        th.emplace_back([&, t, seed = rng.next()] {
            rt::Rng r(seed);
            spy::self()->role.store(t);
            while (!g.go.load(std::memory_order_acquire)) sched_yield();
            Section s;
            while (left.fetch_sub(1) > 0) {
                uint8_t type = r.chance((unsigned) wp) ? W : R;
                section(type, (uint8_t) r.below(2), s, "marathon", [&] {
                    // hold on until another request waits behind us (bounded: all others may be inside with us)
                    for (int spin = 0; spin < 2000 && spy::parkedOn(g.res, sizeof(Resource)) == 0; ++spin) sched_yield();
                    if (spy::parkedOn(g.res, sizeof(Resource)) > 0) handovers.fetch_add(1, std::memory_order_relaxed);
                });
                if (s.park) parked.fetch_add(1, std::memory_order_relaxed);
                spy::noteProgress();
            }
        });
    g.go.store(1, std::memory_order_release);
    for (auto &x : th) x.join();
    idleProbe("marathon");
    ++T.runs;
    T.sections += (uint64_t) total;
    T.parks += parked.load();
    T.marathonRequests += (uint64_t) total;
    T.marathonHandovers += handovers.load();
    rt::Hash h;
    h.add(caseIdx); h.add((uint64_t) nT); h.add((uint64_t) wp);
    T.fps.push_back(h.get());
    if (T.samples.size() < 3) T.samples.push_back(rt::Json().kv("case", caseIdx).kv("what", desc).kv("requestsThatParked", parked.load()).kv("releasesWithSomebodyQueued", handovers.load()).str());
}

void onDeadlock(const std::string &desc) {
    bool rdv = strcmp(gPhase, "rendezvous") == 0;
    uint64_t occ = g.occ.load();
    char b[160];
    snprintf(b, sizeof b, " occupancy: %u writer(s) %u reader(s) inside; ", (unsigned) (occ >> 32), (unsigned) occ);
    rt::violation(rdv ? "C12" : "C02", rdv ? "rendezvous-deadlock" : "quiescent-deadlock", gPhase,
                  gCaseDesc + ":" + b + "every thread is blocked and nothing can wake it: " + desc);
}

} // namespace

int main(int argc, char **argv) {
    rt::init(argc, argv);
    spy::self()->role.store(1000);
    std::string mode = rt::optStr("mode", "stress");
    spy::startMonitor(onDeadlock, (unsigned) rt::optInt("watchdog", 300));
    for (uint64_t c = rt::st().from; c < rt::st().from + rt::st().count; ++c) {
        rt::setCase(c);
        rt::Rng rng(rt::mix(rt::st().seed, c));
        if (mode == "stress") runStress(c, rng);
        else if (mode == "marathon") runMarathon(c, rng);
        else runPattern(c, rng);
        spy::recycle();
    }
    spy::stopMonitor();
    T.maxReaders = gMaxReaders.load();
    rt::dumpFingerprints(T.fps);
    auto &k = spy::counters();
    rt::finish(rt::Json()
                   .kv("engine", "h_rwlock").kv("mode", mode)
                   .kv("runs", T.runs).kv("patterns", T.patterns).kv("sections", T.sections)
                   .kv("reads", T.reads).kv("writes", T.writes).kv("parks", T.parks)
                   .kv("maxReaders", T.maxReaders).kv("batches2", T.batches2).kv("windowHits", T.windowHits)
                   .kv("idleAsleepHits", T.idleAsleepHits).kv("runsWithHit", T.runsWithHit)
                   .kv("pairsLive", T.pairsLive).kv("pairsWW", T.pairsWW).kv("pairsWR", T.pairsWR).kv("pairsRW", T.pairsRW)
                   .kv("maxQueue", T.maxQueue).kv("idleProbes", T.idleProbes)
                   .kv("readersNoWriter", T.readersNoWriter).kv("readerParksJudged", T.readerParksJudged)
                   .kv("rendezvous", T.rendezvous).kv("rendezvousReaders", T.rendezvousReaders)
                   .kv("predictedParks", T.predictedParks).kv("predictedFast", T.predictedFast)
                   .kv("lateArrivalPatterns", T.lateArrivalPatterns).kv("lateArrivals", T.lateArrivals).kv("sectionsNestedInOtherResource", T.nestedSections.load()).kv("recursiveReadLocks", T.nestedSameResource.load()).kv("queuesDeeperThan64", T.deepQueues).kv("readerCrowdsOver255", T.readerCrowds).kv("simultaneousReadersOver255", T.simultaneousCrowds).kv("holdersKeptInsideForSeconds", T.longHolds).kv("marathonRequests", T.marathonRequests).kv("marathonReleasesWithQueue", T.marathonHandovers)
                   .kv("nontrivial", (uint64_t) T.fps.size())
                   .kv("spuriousWakeupsInjected", k.spurious.load()).kv("delaysAfterWake", k.afterWake.load()).kv("delaysCondEntry", k.condEntry.load())
                   .kv("delaysOther", k.beforeLock.load() + k.afterUnlock.load() + k.beforeNotify.load() + k.threadStart.load())
                   .kv("condWaits", k.watchedCondWaits.load())
                   .raw("samples", rt::jsonArray(T.samples, false)));
    return 0;
}
