#!/bin/bash
# Mutation regression: runs, for every kept seeded change, the quick check of its property (plus extra checks named in
# tools/seeded_extra.txt as "<name> <Cxx> [<Cxx>...]") against a scratch worktree with the patch applied, and prints
# one line per change: CAUGHT / SILENT / INCONCLUSIVE. Nothing is written into /repo or the committed evidence.
# usage: tools/check_seeded.sh [<name prefix>]     (PAR=<n> runs n changes at a time, default 3)
cd "$(dirname "$0")/.."
one() {
  d=$1; name=$(basename $d); prop=${name:0:3}
  extra=$(grep -E "^$name " tools/seeded_extra.txt 2>/dev/null | cut -d' ' -f2-)
  out=$(SKIP_CONFIRM=1 tools/try_mutant.sh $d quick $prop $extra 2>&1)
  if echo "$out" | grep -q "^VIOLATION"; then
    echo "CAUGHT $name :: $(echo "$out" | grep -m1 'key=' | cut -c1-120)"
  elif echo "$out" | grep -q "INCONCLUSIVE"; then
    echo "INCONCLUSIVE $name :: $(echo "$out" | grep -m1 INCONCLUSIVE | cut -c1-160)"
  else
    echo "SILENT $name"
  fi
}
export -f one
ls -d seeded/${1:-}*/ | xargs -P ${PAR:-3} -I{} bash -c 'one {}'
echo "SEEDED REGRESSION DONE"
