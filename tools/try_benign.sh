#!/bin/bash
# Runs every check whose property is anchored in the files a (supposedly property-preserving) change touches, against a
# scratch worktree with the change applied. Expected: the repository's tests pass, the author's own program passes, and
# EVERY check stays silent (exit 0). usage: tools/try_benign.sh <dir with patch.diff [run.sh]> [extra Cxx ...]
cd "$(dirname "$0")/.."
d=$(readlink -f "$1"); shift
props="$*"
files=$(grep '^+++ b/' "$d/patch.diff" | sed 's|^+++ b/||')
for f in $files; do
  case "$f" in
    *rwp/Resource*|*rwp/ReadLock*|*rwp/WriteLock*) props="$props C01 C02 C03 C12 C11 C15" ;;
    *container/RingBuffer*) props="$props C04 C09 C01" ;;
    *container/RandomAccessIndexIterator*) props="$props C04 C14" ;;
    *container/Array*) props="$props C14 C17" ;;
    *observer/Observable*) props="$props C16" ;;
    *routing/ConcurrentSubjectRouter*) props="$props C11 C15 C06 C13" ;;
    *observer/routing/*) props="$props C06 C13 C11" ;;
    *observer/*) props="$props C05 C10 C16 C06 C13 C11" ;;
    *threading/ThreadPool*) props="$props C07 C08 C15" ;;
    *threading/Thread*|*threading/Runnable*) props="$props C20 C07 C08 C15" ;;
    *File.*) props="$props C17" ;;
    *Path.*|*DirectoryVisitor*|*Exception*) props="$props C18 C17" ;;
    *LocaleInfo*) props="$props C19" ;;
  esac
done
props=$(echo $props | tr ' ' '\n' | sort -u | tr '\n' ' ')
wt=/tmp/bwt_$$; out=/tmp/bout_$$
git -C /repo worktree add --detach $wt HEAD -q || exit 2
cleanup() { git -C /repo worktree remove --force $wt; rm -rf $out; }
trap cleanup EXIT
if ! git -C $wt apply "$d/patch.diff"; then echo "PATCH DOES NOT APPLY"; exit 2; fi
if [ -z "$SKIP_CONFIRM" ]; then
  echo "== repository tests with the change"; /tmp/mutkit/build_and_test.sh $wt | tail -3
  rm -rf $wt/_build $wt/_build.log
  if [ -f "$d/run.sh" ]; then
    echo "== author's program on the changed tree (should PASS)"; (cd "$d" && timeout 1200 bash ./run.sh $wt > $out.demo1 2>&1; echo "exit=$?"; tail -2 $out.demo1 | cut -c1-200); rm -f $out.demo1
  fi
fi
for p in $props; do
  echo "== check $p (quick) against the change"
  VERIF_REPO=$wt VERIF_OUTDIR=$out ./vcheck run $p --tier quick 2>&1 | grep -E "^VIOLATION|^  key=|^KNOWN|^INCONCLUSIVE|^C[0-9]+ " | cut -c1-300 | head -12
done
