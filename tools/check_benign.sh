#!/bin/bash
# False-alarm regression: runs, for every kept property-preserving re-implementation under benign/, every check anchored in
# the files it touches (scratch worktree, nothing written into /repo or the committed evidence) and prints one line per
# change: SILENT / ALARM / INCONCLUSIVE, next to what benign/<name>/meta.json records as expected ("silent",
# "silent-after-fix", "flagged" = a true positive explained there, "inconclusive").
# usage: tools/check_benign.sh [<name prefix>]   (PAR=<n> changes at a time, default 3)
cd "$(dirname "$0")/.."
one() {
  d=$1; name=$(basename $d)
  want=$(python3 -c "import json;print(json.load(open('$d/meta.json'))['result'])")
  out=$(SKIP_CONFIRM=1 tools/try_benign.sh $d 2>&1)
  if echo "$out" | grep -q "^VIOLATION"; then echo "ALARM $name (recorded: $want) :: $(echo "$out" | grep -m1 'key=' | cut -c1-120)"
  elif echo "$out" | grep -q "INCONCLUSIVE"; then echo "INCONCLUSIVE $name (recorded: $want) :: $(echo "$out" | grep -m1 INCONCLUSIVE | cut -c1-120)"
  else echo "SILENT $name (recorded: $want)"; fi
}
export -f one
ls -d benign/${1:-}*/ | xargs -P ${PAR:-3} -I{} bash -c 'one {}'
echo "BENIGN REGRESSION DONE"
