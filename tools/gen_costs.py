#!/usr/bin/env python3
"""Rewrites the as-built bounds table in DESIGN.md (between the COST-TABLE markers) from driver/specs.py and tools/measured_times.json."""
import json, os, sys
V = os.path.dirname(os.path.dirname(os.path.abspath(__file__)))
sys.path.insert(0, os.path.join(V, 'driver'))
import specs
times = {}
tp = os.path.join(V, 'tools', 'measured_times.json')
if os.path.exists(tp):
    times = json.load(open(tp))
def summ(js):
    v = {}
    for j in js:
        k = j.variant + ('+valgrind' if j.valgrind else '') + ('/lin' if 'mode=lin' in j.args else '')
        v[k] = v.get(k, 0) + j.count
    return ', '.join('%s %d' % (k, n) for k, n in v.items())
rows = []
for p in sorted(specs.SPECS):
    sp = specs.SPECS[p]
    t = times.get(p, {})
    rows.append('| %s | %s | %s | %s | %s |' % (p, summ(sp['jobs']('quick', 1)), t.get('quick', ''), summ(sp['jobs']('thorough', 1)), t.get('thorough', '')))
table = ('| property | quick: cases per build variant | quick wall time | thorough: cases per build variant | thorough wall time |\n|---|---|---|---|---|\n' + '\n'.join(rows))
p = os.path.join(V, 'DESIGN.md')
s = open(p).read()
a, b = '<!-- COST-TABLE-BEGIN -->', '<!-- COST-TABLE-END -->'
i, j = s.index(a) + len(a), s.index(b)
s = s[:i] + '\n' + table + '\n' + s[j:]
open(p, 'w').write(s)
print('cost table written')
