#!/usr/bin/env python3
"""Mechanical mutation campaign: a blind-spot finder for the checks (not a check itself).
For every executable, covered line of the repository's own code a set of single-token mutations is generated
(relational and logical operators, +-1, ++/--, true/false, negation removal, statement deletion, notify_all->notify_one,
integer narrowing of size_t/int64_t members). Each mutant is applied to a scratch worktree of /repo, the quick checks of the
properties anchored in that file are run against it (first alarm wins) and the verdict is logged:
  KILLED <check> | SURVIVED | NOBUILD
usage: tools/mutate.py <out.jsonl> [max=300] [par=3] [files=substring,...] [seed=1]
Survivors are to be read by a human: equivalent mutants, changes outside every property, or a blind spot."""
import hashlib, json, os, random, re, subprocess, sys, threading, queue, shutil
VERIF = os.path.dirname(os.path.dirname(os.path.abspath(__file__)))
REPO = os.environ.get('VERIF_REPO', '/repo')
out = sys.argv[1]
opt = dict(a.split('=', 1) for a in sys.argv[2:])
MAX = int(opt.get('max', 300)); PAR = int(opt.get('par', 3)); SEED = int(opt.get('seed', 1))
only = [x for x in opt.get('files', '').split(',') if x]

PROPS = [
    ('threading/rwp/Resource', ['C02', 'C01', 'C03', 'C12']),
    ('threading/rwp/ReadLock', ['C01', 'C12']), ('threading/rwp/WriteLock', ['C01']),
    ('container/RingBuffer', ['C04', 'C09']), ('container/RandomAccessIndexIterator', ['C04', 'C14']),
    ('container/Array', ['C14']),
    ('observer/Observable', ['C16']),
    ('observer/routing/ConcurrentSubjectRouter', ['C11', 'C06']),
    ('observer/routing/', ['C06', 'C13']),
    ('observer/USubscription', ['C06', 'C11']),
    ('observer/', ['C05', 'C10', 'C16']),
    ('threading/ThreadPool', ['C07', 'C08']),
    ('threading/Thread', ['C20']), ('threading/Runnable', ['C20', 'C07']),
    ('File', ['C17']), ('Path', ['C18']), ('DirectoryVisitor', ['C18']), ('LocaleInfo', ['C19']), ('Exception', ['C17', 'C18']),
]
def props_for(rel):
    for k, v in PROPS:
        if k in rel:
            return v
    return []

def candidates(rel, text):
    res = []
    lines = text.split('\n')
    for i, ln in enumerate(lines):
        s = ln.strip()
        if not s or s.startswith('//') or s.startswith('*') or s.startswith('#') or s.startswith('/*'):
            continue
        code = ln.split('//')[0]
        def add(old, new, kind, count=1):
            idx = [m.start() for m in re.finditer(re.escape(old), code)]
            for k in idx[:2]:
                res.append((i, k, old, new, kind))
        ctl = re.search(r'\b(if|while|for|return|assert)\b', code) or '?' in code or '=' in code
        if ctl:
            for a, b in ((' <= ', ' < '), (' < ', ' <= '), (' >= ', ' > '), (' > ', ' >= '), (' == ', ' != '), (' != ', ' == '), (' && ', ' || '), (' || ', ' && ')):
                if 'template' not in code and 'operator' not in code:
                    add(a, b, 'rel/logic')
        for a, b in ((' + 1', ' - 1'), (' - 1', ' + 1'), (' + 1', ''), (' - 1', ''), (' - 2', ' - 1')):
            add(a, b, 'plus-minus-one')
        for a, b in (('++', '--'), ('--', '++'), (' += ', ' -= '), (' -= ', ' += ')):
            if 'operator' not in code and 'for (' not in code:
                add(a, b, 'inc-dec')
        for a, b in (('true', 'false'), ('false', 'true')):
            if re.search(r'\b' + a + r'\b', code) and 'template' not in code and 'static_assert' not in code:
                add(a, b, 'bool-const')
        if re.search(r'\bif \(!', code):
            add('if (!', 'if (', 'negation-removed')
        if 'notify_all' in code:
            add('notify_all', 'notify_one', 'notify-one')
        if re.match(r'^\s+(size_t|ssize_t|int64_t|Id|int|SubscriptionId|long)\s+m_\w+', code) or re.match(r'^\s*using (Id|SubscriptionId) = ', code):
            for a in ('size_t', 'ssize_t', 'int64_t', 'uint32_t', 'int ', 'long '):
                if a in code:
                    add(a, 'uint8_t ' if a.endswith(' ') else 'uint8_t', 'narrowing')
                    add(a, 'uint16_t ' if a.endswith(' ') else 'uint16_t', 'narrowing')
                    break
        # statement deletion: simple call / assignment statements
        if re.match(r'^\s+[\w\.\->\*\[\]\(\):]+.*;\s*$', code) and not re.match(r'^\s+(return|throw|break|continue|using|typedef|static|const|auto|template|friend|public|private|protected|case|default|delete|[A-Z]\w*(<.*>)? [\w\*&]+( \{.*\})?( = .*)?;|\w+(<.*>)? \w+;|(unsigned |std::)?\w+(<.*>)? [\*&]?\w+ = )', code) and '{' not in code and '}' not in code:
            res.append((i, -1, ln, '/* deleted */;', 'statement-deleted'))
    return res

def covered_lines():
    cache = os.path.join(VERIF, 'build', 'coverage-lines.json')
    if os.path.exists(cache):
        return json.load(open(cache))
    return None

files = []
for root in ('include', 'src'):
    for dp, dn, fn in os.walk(os.path.join(REPO, root)):
        for f in fn:
            if f.endswith(('.h', '.cpp')):
                files.append(os.path.relpath(os.path.join(dp, f), REPO))
files.sort()
cov = covered_lines()
muts = []
for rel in files:
    if only and not any(o in rel for o in only):
        continue
    if not props_for(rel):
        continue
    text = open(os.path.join(REPO, rel)).read()
    for (i, k, old, new, kind) in candidates(rel, text):
        if cov is not None and str(i + 1) not in cov.get(rel, {}) :
            continue
        if cov is not None and cov[rel][str(i + 1)] == 0:
            continue
        muts.append(dict(file=rel, line=i + 1, col=k, old=old if k >= 0 else old.strip(), new=new, kind=kind))
random.Random(SEED).shuffle(muts)
# spread over files: round-robin by file
byf = {}
for m in muts:
    byf.setdefault(m['file'], []).append(m)
sel = []
while len(sel) < MAX and any(byf.values()):
    for f in sorted(byf):
        if byf[f] and len(sel) < MAX:
            sel.append(byf[f].pop())
print('candidates: %d, selected: %d' % (len(muts), len(sel)), flush=True)
done = set()
if os.path.exists(out):
    for l in open(out):
        try:
            d = json.loads(l); done.add((d['file'], d['line'], d['col'], d['new']))
        except ValueError:
            pass
q = queue.Queue()
for m in sel:
    if (m['file'], m['line'], m['col'], m['new']) not in done:
        q.put(m)
lock = threading.Lock()

def apply(wt, m):
    p = os.path.join(wt, m['file'])
    lines = open(p).read().split('\n')
    ln = lines[m['line'] - 1]
    if m['col'] < 0:
        indent = ln[:len(ln) - len(ln.lstrip())]
        lines[m['line'] - 1] = indent + m['new']
    else:
        lines[m['line'] - 1] = ln[:m['col']] + m['new'] + ln[m['col'] + len(m['old']):]
    open(p, 'w').write('\n'.join(lines))

def worker(wid):
    wt = '/tmp/mutwt_%d_%d' % (os.getpid(), wid)
    subprocess.run(['git', '-C', REPO, 'worktree', 'add', '--detach', wt, 'HEAD', '-q'], check=True)
    outdir = '/tmp/mutout_%d_%d' % (os.getpid(), wid)
    try:
        while True:
            try:
                m = q.get_nowait()
            except queue.Empty:
                break
            subprocess.run(['git', '-C', wt, 'checkout', '-q', '--', '.'])
            apply(wt, m)
            verdict, by, key = 'SURVIVED', '', ''
            for prop in props_for(m['file']):
                env = dict(os.environ, VERIF_REPO=wt, VERIF_OUTDIR=outdir)
                try:
                    r = subprocess.run([os.path.join(VERIF, 'vcheck'), 'run', prop, '--tier', 'quick'], capture_output=True, text=True, env=env, timeout=3600)
                    txt = r.stdout + r.stderr
                except subprocess.TimeoutExpired:
                    txt = 'INCONCLUSIVE: timeout'
                if 'build failure' in txt:
                    verdict = 'NOBUILD'; break
                if re.search(r'^VIOLATION', txt, re.M):
                    verdict, by = 'KILLED', prop
                    km = re.search(r'key=(\S+)', txt)
                    key = km.group(1) if km else ''
                    break
                if 'INCONCLUSIVE' in txt and verdict == 'SURVIVED':
                    by = 'inconclusive:' + prop
            shutil.rmtree(outdir, ignore_errors=True)
            m2 = dict(m, verdict=verdict, by=by, key=key)
            with lock:
                with open(out, 'a') as f:
                    f.write(json.dumps(m2) + '\n')
                print('%-8s %s:%d %s  [%s -> %s] %s %s' % (verdict, m['file'], m['line'], m['kind'], m['old'][:30], m['new'][:20], by, key[:60]), flush=True)
    finally:
        subprocess.run(['git', '-C', REPO, 'worktree', 'remove', '--force', wt])

ts = [threading.Thread(target=worker, args=(i,)) for i in range(PAR)]
for t in ts: t.start()
for t in ts: t.join()
print('MUTATION CAMPAIGN DONE')
