#!/usr/bin/env python3
"""Line coverage of the repository's own code under the quick-tier workloads.
Builds every engine with gcov instrumentation, runs a share of every quick job of every property, and lists the
executable lines of /repo (headers and sources) that no workload reached. A blind-spot finder for the workloads, not a
check: nothing here decides a property.
usage: tools/coverage.py [share=0.25] [Cxx ...]"""
import glob, gzip, json, os, shutil, subprocess, sys
sys.path.insert(0, os.path.join(os.path.dirname(os.path.abspath(__file__)), '..', 'driver'))
import vdriver as V
import specs as S

share = 0.25
props = []
for a in sys.argv[1:]:
    if a.startswith('share='):
        share = float(a[6:])
    else:
        props.append(a)
props = props or sorted(S.SPECS)
covdir = os.path.join(V.BUILD, 'cov')
for f in glob.glob(os.path.join(covdir, '*.gcda')):
    os.unlink(f)
rundir = os.path.join(V.BUILD, 'run', 'coverage-%d' % os.getpid())
os.makedirs(rundir, exist_ok=True)
exes = {}
for prop in props:
    jobs = S.SPECS[prop]['jobs']('quick', 0)
    for i, j in enumerate(jobs):
        if j.tsan and False:
            continue
        if j.engine not in exes:
            exes[j.engine] = V.build_engine(S.ENGINES, j.engine, 'cov')
        cnt = max(1, int(j.count * share))
        cmd = [exes[j.engine], '--seed', str(j.seed), '--from', str(j.frm), '--count', str(cnt), '--out', os.path.join(rundir, 'o.jsonl'),
               '--prop', prop, 'cpubase=0'] + j.args
        env = dict(os.environ)
        env.update(j.env)
        try:
            subprocess.run(cmd, cwd=rundir, env=env, timeout=1800, stdout=subprocess.DEVNULL, stderr=subprocess.DEVNULL)
        except subprocess.TimeoutExpired:
            print('timeout', prop, j.engine, j.args)
    print('ran', prop, len(jobs), 'jobs', flush=True)
shutil.rmtree(rundir, ignore_errors=True)
# aggregate
lines = {}   # file -> {line: count}
for gcda in glob.glob(os.path.join(covdir, '*.gcda')):
    r = subprocess.run(['gcov', '--json-format', '--stdout', gcda], capture_output=True, cwd=covdir)
    if r.returncode != 0:
        continue
    for doc in r.stdout.decode(errors='replace').splitlines():
        try:
            d = json.loads(doc)
        except ValueError:
            continue
        for f in d.get('files', []):
            path = os.path.normpath(os.path.join(covdir, f['file']))
            if not path.startswith(V.REPO + '/') or '/tests/' in path:
                continue
            m = lines.setdefault(path, {})
            for ln in f.get('lines', []):
                m[ln['line_number']] = m.get(ln['line_number'], 0) + ln['count']
json.dump({os.path.relpath(p, V.REPO): {str(l): c for l, c in m.items()} for p, m in lines.items()}, open(os.path.join(V.BUILD, 'coverage-lines.json'), 'w'))   # read by tools/mutate.py
tot = unc = 0
for path in sorted(lines):
    src = open(path, errors='replace').read().splitlines()
    miss = sorted(l for l, c in lines[path].items() if c == 0)
    tot += len(lines[path]); unc += len(miss)
    print('== %s: %d of %d executable lines never reached' % (os.path.relpath(path, V.REPO), len(miss), len(lines[path])))
    for l in miss:
        print('   %4d  %s' % (l, src[l - 1].strip()[:110] if l <= len(src) else ''))
print('TOTAL: %d of %d executable lines of the repository never reached by the quick workloads (share %.2f)' % (unc, tot, share))
