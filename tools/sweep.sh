#!/bin/bash
# Runs the checks of the given tier for several seeds and prints one line per (seed, property).
# usage: tools/sweep.sh <tier> "<seeds>" ["<props>"]     (evidence/replays go to $VERIF_OUTDIR if set)
cd "$(dirname "$0")/.."
tier=${1:-quick}; seeds=${2:-"1 2 3 4 5"}; props=${3:-"C01 C02 C03 C04 C05 C06 C07 C08 C09 C10 C11 C12 C13 C14 C15 C16 C17 C18 C19 C20"}
bad=0
for s in $seeds; do for p in $props; do
  t0=$(date +%s)
  out=$(VERIF_SEED=$s ./vcheck run $p --tier $tier 2>&1); rc=$?
  echo "seed=$s $p rc=$rc $(( $(date +%s) - t0 ))s :: $(echo "$out" | tail -1 | cut -c1-160)"
  if [ $rc -ne 0 ]; then bad=1; echo "$out" | head -30 | cut -c1-400; fi
done; done
echo "SWEEP DONE bad=$bad"
