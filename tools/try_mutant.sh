#!/bin/bash
# Confirms a seeded change and runs checks against it, in a scratch worktree (never in /repo).
# usage: tools/try_mutant.sh <dir with patch.diff [run.sh]> <tier> <prop> [<prop> ...]
#   steps: worktree of /repo HEAD -> apply patch -> build + repository tests (must pass) -> demo on mutant (must fail) and on clean tree (must pass)
#          -> every listed check with VERIF_REPO=<worktree> (evidence/replays redirected) -> remove worktree
cd "$(dirname "$0")/.."
d=$(readlink -f "$1"); tier=$2; shift 2
wt=/tmp/mwt_$$; out=/tmp/mout_$$
git -C /repo worktree add --detach $wt HEAD -q || exit 2
cleanup() { git -C /repo worktree remove --force $wt; rm -rf $out; }
trap cleanup EXIT
if ! git -C $wt apply "$d/patch.diff"; then echo "PATCH DOES NOT APPLY"; exit 2; fi
if [ -z "$SKIP_CONFIRM" ]; then
  echo "== repository tests with the change"; /tmp/mutkit/build_and_test.sh $wt | tail -3
  rm -rf $wt/_build $wt/_build.log
  if [ -f "$d/run.sh" ]; then
    echo "== demo on changed tree (should FAIL)"; (cd "$d" && timeout 600 bash ./run.sh $wt > $out.demo1 2>&1; echo "exit=$?"; tail -4 $out.demo1 | cut -c1-300)
    echo "== demo on clean tree (should PASS)"; (cd "$d" && timeout 600 bash ./run.sh /repo > $out.demo2 2>&1; echo "exit=$?"; tail -3 $out.demo2 | cut -c1-300)
    rm -f $out.demo1 $out.demo2
  fi
fi
for p in "$@"; do
  echo "== check $p ($tier) against the change"
  VERIF_REPO=$wt VERIF_OUTDIR=$out ./vcheck run $p --tier $tier 2>&1 | grep -E "^VIOLATION|^  key=|^KNOWN|^INCONCLUSIVE|^C[0-9]+ " | cut -c1-260 | head -14
done
