#!/usr/bin/env python3
"""Copies a confirmed seeded change into /verif/seeded/<name>/ and writes meta.json.
usage: keep_mutant.py <srcdir> <name> <property> <caught-by text> [<extra note>]"""
import json, os, shutil, sys
src, name, prop, caught = sys.argv[1:5]
note = sys.argv[5] if len(sys.argv) > 5 else ''
dst = os.path.join('/verif/seeded', name)
os.makedirs(dst, exist_ok=True)
for f in os.listdir(src):
    if f.endswith(('.diff', '.cpp', '.sh', '.h', '.txt', '.py')):
        shutil.copy(os.path.join(src, f), os.path.join(dst, f))
meta = {}
try:
    meta = json.load(open(os.path.join(src, 'meta.json')))
except Exception:
    pass
out = {
    'property': prop,
    'origin': 'independent sub-agent given only the property text and a scratch worktree' if meta else 'written by hand',
    'what': meta.get('what', ''),
    'needs_to_manifest': meta.get('needs', ''),
    'files': meta.get('files', []),
    'confirmed_by_me': 'tools/try_mutant.sh: scratch worktree of /repo HEAD + patch.diff -> repository build and all 11 ctest targets pass; run.sh fails on the changed tree and passes on the clean tree',
    'checks_run': caught,
    'note': note,
}
json.dump(out, open(os.path.join(dst, 'meta.json'), 'w'), indent=1)
print('kept', dst)
