#!/usr/bin/env python3
"""Rewrites the table of seeded changes in DESIGN.md (between the SEEDED-TABLE markers) from seeded/*/meta.json."""
import json, os, re
V = os.path.dirname(os.path.dirname(os.path.abspath(__file__)))
rows = []
for name in sorted(os.listdir(os.path.join(V, 'seeded'))):
    mp = os.path.join(V, 'seeded', name, 'meta.json')
    if not os.path.exists(mp):
        continue
    m = json.load(open(mp))
    what = re.sub(r'\s+', ' ', m.get('what', '')).strip()
    if len(what) > 230:
        what = what[:227] + '...'
    caught = re.sub(r'\s+', ' ', m.get('checks_run', '')).replace('|', '\\|')
    note = re.sub(r'\s+', ' ', m.get('note', '')).replace('|', '\\|')
    rows.append('| `%s` | %s | %s | %s%s |' % (name, m.get('property', ''), what.replace('|', '\\|'), caught, (' **' + note + '**') if note else ''))
table = '| seeded change (`/verif/seeded/<name>/`) | property | what was changed | verdict of the checks (quick tier) |\n|---|---|---|---|\n' + '\n'.join(rows)
p = os.path.join(V, 'DESIGN.md')
s = open(p).read()
a, b = '<!-- SEEDED-TABLE-BEGIN -->', '<!-- SEEDED-TABLE-END -->'
i, j = s.index(a) + len(a), s.index(b)
s = s[:i] + '\n' + table + '\n' + s[j:]
open(p, 'w').write(s)
print('table with %d rows written' % len(rows))
