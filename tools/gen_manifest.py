#!/usr/bin/env python3
"""Writes /verif/MANIFEST.json from driver/specs.py (single source of truth)."""
import json, os, sys
V = os.path.dirname(os.path.dirname(os.path.abspath(__file__)))
sys.path.insert(0, os.path.join(V, 'driver'))
import specs as S

ALL = ['C%02d' % i for i in range(1, 21)]
checks = []
for p in ALL:
    if p not in S.SPECS:
        continue
    s = S.SPECS[p]
    m = s.get('manifest', {})
    checks.append({
        'property_id': p,
        'quick_cmd': './vcheck run %s --tier quick' % p,
        'thorough_cmd': './vcheck run %s --tier thorough' % p,
        'evidence_file': 'evidence/%s.json' % p,
        'replay_cmd_template': './vcheck replay {path}',
        'engine': m.get('engine', ''),
        'level_claimed': {'category': s.get('level', 'exploration'), 'text': m.get('text', ''), 'design_ref': m.get('design_ref', 'DESIGN.md section 3, ' + p)},
        'level_note': m.get('note', ''),
        'technique': m.get('technique', ''),
    })
na = [{'property_id': p, 'reason': S.NOT_APPLICABLE.get(p, 'check not built yet in this revision of /verif')} for p in ALL if p not in S.SPECS]
manifest = {
    'version': 1,
    'setup_cmd': './vcheck build',
    'hooks': {
        'guard': 'TULZ_VERIF',
        'enable': 'every harness build passes -DTULZ_VERIF to the tulz sources it compiles from /repo (see driver/vdriver.py COMMON); the guard currently guards nothing in /repo: all observation is at the public API, at the pthread boundary (interposer) and by sanitizer instrumentation',
        'baseline_off_cmd': 'cmake --build /repo/_build && ctest --test-dir /repo/_build -j8 --timeout 900',
        'source_commits': [],
        'add_only': True,
    },
    'engines': [{'name': n, 'path': 'harness/%s.cpp' % n, 'serves_properties': [p for p in ALL if p in S.SPECS and S.SPECS[p].get('manifest', {}).get('engine') == n],
                 'kind_free_text': e.get('kind', '')} for n, e in sorted(S.ENGINES.items())],
    'checks': checks,
    'not_applicable': na,
    'notes': 'Runtime monitoring and sanitizers only. Every check rebuilds the tulz sources it needs from /repo\'s working tree (content-hashed object cache under /verif/build). Exit 0 held / 1 VIOLATION / 2 inconclusive. Known findings: known_findings.txt.',
}
json.dump(manifest, open(os.path.join(V, 'MANIFEST.json'), 'w'), indent=1)
print('wrote MANIFEST.json with %d checks, %d not_applicable' % (len(checks), len(na)))
