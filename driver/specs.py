"""Per-property check specifications: which jobs run in which tier, what must
have been observed for a 'held' verdict, and how the evidence is written."""
from vdriver import Job, NCPU

ENGINES = {
    'h_race': dict(tulz=['threading', 'router'], setup_variants=['tsan'],
                   kind='intended-use stress of Resource, ThreadPool, ConcurrentSubjectRouter and Thread under ThreadSanitizer (no interposer)'),
    'h_crouter': dict(tulz=['router'], spy=True, schedule_sensitive=True, setup_variants=['mon', 'asan'],
                      kind='multi-threaded histories on ConcurrentSubjectRouter with stamped calls/returns/callbacks and an interval-based linearizability check per notify'),
    'h_pool': dict(tulz=['threading'], spy=True, schedule_sensitive=True, setup_variants=['mon', 'asan'],
                   kind='seeded owner programs with instrumented tasks on ThreadPool, pthread interposer (delays, park table, quiescence oracle); mon and ASan builds'),
    'h_thread': dict(tulz=['threading'], spy=True, schedule_sensitive=True, setup_variants=['mon', 'asan'],
                     kind='canary callables, dead-stack clobbering, late-start trampoline delays and completion marks for tulz::Thread; mon and ASan builds'),
    'h_file': dict(tulz=['fs'], setup_variants=['asan'], kind='byte-vector + position model for tulz::File in a private directory, cross-checked with std::filesystem, ASan/UBSan'),
    'h_path': dict(tulz=['fs'], setup_variants=['asan'], kind='generated directory trees vs std::filesystem, path-string identities, DirectoryVisitor cwd checks, ASan/UBSan'),
    'h_locale': dict(tulz=['locale'], setup_variants=['asan'],
                     kind='exhaustive table combinations + hostile/random strings against an independent parse-and-lookup oracle, ASan/UBSan, valgrind sample'),
    'h_observable': dict(tulz=['none'], setup_variants=['asan'],
                         kind='lock-step value model for Observable<int|long|double+tolerance|float|std::string>, ASan/UBSan'),
    'h_router': dict(tulz=['router'], setup_variants=['asan'],
                     kind='routing-tree model in lock-step with SubjectRouter / ConcurrentSubjectRouter, stored keys measured through exists(), ASan/UBSan'),
    'h_subject': dict(tulz=['none'], setup_variants=['asan'],
                      kind='online co-simulation of Subject rounds (model predicts every invocation), scripted callbacks, ASan/UBSan/LSan'),
    'h_array': dict(tulz=['none'], setup_variants=['asan'],
                    kind='lock-step std::vector model + lifetime registry over seeded Array histories, ASan/UBSan/LSan'),
    'h_ring': dict(tulz=['none'], cflags=['-fno-access-control'], setup_variants=['asan'],
                   kind='lock-step bounded-deque model + lifetime registry over seeded RingBuffer histories, ASan/UBSan/LSan'),
    'h_rwlock': dict(tulz=['resource'], spy=True, schedule_sensitive=True, setup_variants=['mon']),
}

SPECS = {}

# Every kind of operation an engine knows must actually be drawn (a weight table that silently pushes an operation out of
# the draw is a blind spot that no violation reveals): minimum counts per operation, a hundredth of what a quick run sees.
OP_MINIMUMS = {
 "C04": {
  "opCount.compare": 1406,
  "opCount.construct": 1367,
  "opCount.construct-ilist": 584,
  "opCount.copy-assign-onto-empty": 230,
  "opCount.copy-assign-onto-moved-from": 837,
  "opCount.copy-assign-onto-nonempty": 870,
  "opCount.copy-assign-self": 1291,
  "opCount.copy-construct": 1207,
  "opCount.destroy": 2852,
  "opCount.destroy-moved-from": 1215,
  "opCount.emplace-default": 620,
  "opCount.emplace-default-overwrite": 197,
  "opCount.emplace-two-args": 649,
  "opCount.emplace-two-args-overwrite": 227,
  "opCount.index-write": 2874,
  "opCount.iterator": 1327,
  "opCount.move-assign": 1144,
  "opCount.move-assign-onto-moved-from": 873,
  "opCount.move-assign-self": 260,
  "opCount.move-construct": 907,
  "opCount.pop_back": 5163,
  "opCount.pop_front": 5156,
  "opCount.push_back": 7873,
  "opCount.push_back-alias": 658,
  "opCount.push_back-alias-overwrite": 346,
  "opCount.push_back-overwrite": 2496,
  "opCount.push_front": 6212,
  "opCount.push_front-alias": 652,
  "opCount.push_front-alias-overwrite": 348,
  "opCount.push_front-overwrite": 1979,
  "opCount.resize-cut": 440,
  "opCount.resize-cut-offset": 99,
  "opCount.resize-cut-wrapped": 466,
  "opCount.resize-grow": 1311,
  "opCount.resize-same": 2334,
  "opCount.resize-shrink": 1070
 },
 "C05": {
  "opCount.destroy-subject": 638,
  "opCount.handle-move": 2765,
  "opCount.invalidate": 2765,
  "opCount.mute": 2769,
  "opCount.notify": 9624,
  "opCount.stale-handle": 4145,
  "opCount.subscribe": 9243,
  "opCount.unmute": 2417,
  "opCount.unsubscribe": 3116
 },
 "C06": {
  "opCount.invalidate": 239,
  "opCount.mute": 171,
  "opCount.notify": 1599,
  "opCount.probe-notify": 3747,
  "opCount.shrink": 624,
  "opCount.subscribe": 1172,
  "opCount.unmute": 138,
  "opCount.unsubscribe": 414
 },
 "C09": {
  "opCount.construct": 560,
  "opCount.construct-ilist": 239,
  "opCount.copy-assign-onto-empty": 713,
  "opCount.copy-assign-onto-moved-from": 248,
  "opCount.copy-assign-onto-nonempty": 2944,
  "opCount.copy-assign-self": 3229,
  "opCount.copy-construct": 1298,
  "opCount.destroy": 2347,
  "opCount.destroy-moved-from": 74,
  "opCount.emplace-default": 593,
  "opCount.emplace-default-overwrite": 222,
  "opCount.emplace-two-args": 1592,
  "opCount.emplace-two-args-overwrite": 592,
  "opCount.index-write": 2944,
  "opCount.move-construct": 322,
  "opCount.pop_back": 5312,
  "opCount.pop_front": 5287,
  "opCount.push_back": 7541,
  "opCount.push_back-alias": 613,
  "opCount.push_back-alias-overwrite": 406,
  "opCount.push_back-overwrite": 2808,
  "opCount.push_front": 5960,
  "opCount.push_front-alias": 615,
  "opCount.push_front-alias-overwrite": 407,
  "opCount.push_front-overwrite": 2221,
  "opCount.resize-cut": 920,
  "opCount.resize-cut-offset": 155,
  "opCount.resize-cut-wrapped": 762,
  "opCount.resize-grow": 2556,
  "opCount.resize-same": 4850,
  "opCount.resize-shrink": 1782
 },
 "C10": {
  "inRoundActionKinds.invalidate-other": 375,
  "inRoundActionKinds.invalidate-self": 619,
  "inRoundActionKinds.mute": 708,
  "inRoundActionKinds.nested-notify": 966,
  "inRoundActionKinds.subscribe": 1445,
  "inRoundActionKinds.throw": 291,
  "inRoundActionKinds.unmute": 565,
  "inRoundActionKinds.unsubscribe-not-yet-called": 411,
  "inRoundActionKinds.unsubscribe-other": 389,
  "inRoundActionKinds.unsubscribe-self": 1322,
  "opCount.destroy-subject": 637,
  "opCount.handle-move": 1267,
  "opCount.invalidate": 1274,
  "opCount.mute": 1268,
  "opCount.notify": 4763,
  "opCount.stale-handle": 1897,
  "opCount.subscribe": 5428,
  "opCount.unmute": 1105,
  "opCount.unsubscribe": 1429
 },
 "C13": {
  "opCount.invalidate": 157,
  "opCount.mute": 115,
  "opCount.notify": 807,
  "opCount.probe-notify": 3967,
  "opCount.shrink": 661,
  "opCount.subscribe": 775,
  "opCount.unmute": 89,
  "opCount.unsubscribe": 273
 },
 "C14": {
  "opCount.construct-default": 421,
  "opCount.construct-ilist": 1786,
  "opCount.construct-ptr-adopt": 498,
  "opCount.construct-ptr-copy": 2975,
  "opCount.construct-size": 1355,
  "opCount.construct-size-value": 1446,
  "opCount.copy-assign": 2005,
  "opCount.copy-assign-onto-moved-from": 605,
  "opCount.copy-assign-self": 1671,
  "opCount.copy-construct": 1519,
  "opCount.destroy": 9335,
  "opCount.destroy-moved-from": 1675,
  "opCount.element-write": 6145,
  "opCount.move-assign": 1273,
  "opCount.move-assign-onto-moved-from": 381,
  "opCount.move-construct": 1006,
  "opCount.resize-grow": 2271,
  "opCount.resize-shrink": 1486,
  "opCount.resize-value-grow": 2062,
  "opCount.resize-value-shrink": 1345,
  "opCount.swap": 2341
 },
 "C16": {
  "opCount.*=": 2915,
  "opCount.++pre": 1467,
  "opCount.+=": 5269,
  "opCount.--pre": 1468,
  "opCount.-=": 3658,
  "opCount./=": 2560,
  "opCount.apply": 5699,
  "opCount.assign-changing": 6262,
  "opCount.assign-equal": 4696,
  "opCount.assign-other-type": 3073,
  "opCount.compound-other-type": 1827,
  "opCount.post++": 1464,
  "opCount.post--": 1456,
  "opCount.subscribe": 2858,
  "opCount.unsubscribe": 1083
 }
}

NOT_APPLICABLE = {}   # property -> reason (only for properties this family cannot decide)


def pseed(seed, prop, k=0):
    # distinct stream per property / job, still a pure function of VERIF_SEED
    return (seed * 1000003 + int(prop[1:]) * 7919 + k * 104729) % (1 << 62) + 1


def split(total, parts):
    """[(from, count)] covering range(total) in `parts` slices."""
    parts = max(1, min(parts, total))
    base, rem = divmod(total, parts)
    out, frm = [], 0
    for i in range(parts):
        c = base + (1 if i < rem else 0)
        out.append((frm, c))
        frm += c
    return out


def cov(evaluations, distinct, rule, samples, **extra):
    d = dict(evaluations=int(evaluations), distinct_nontrivial=int(distinct), rule=rule, samples=samples[:8])
    d.update(extra)
    return d


def pick(agg, *names):
    return {n: agg.get(n, 0) for n in names}


# ----------------------------------------------------------------------------- Resource (C01 C02 C03 C12)

def rw_jobs(prop, stress_runs, patterns, stress_args=(), pattern_args=(), variants=('mon',), ops=12000, stress_par=6, marathons=(0, 0)):
    def mk(tier, seed):
        q = tier == 'quick'
        jobs = []
        k = 0
        for vi, variant in enumerate(variants if not q else variants[:1]):
            n_s = stress_runs[0 if q else 1]
            n_p = patterns[0 if q else 1]
            for frm, cnt in split(n_s, stress_par if q else 8):
                jobs.append(Job('h_rwlock', variant, pseed(seed, prop, vi), frm, cnt,
                                ['mode=stress', 'ops=%d' % (ops if q else 2 * ops)] + list(stress_args), label='stress'))
            for frm, cnt in split(n_p, 6 if q else 8):
                jobs.append(Job('h_rwlock', variant, pseed(seed, prop, 50 + vi), frm, cnt,
                                ['mode=pattern'] + list(pattern_args), label='pattern'))
            # one uninterrupted busy period of more than 2^16 queued requests per case (whatever the lock counts per busy period keeps growing)
            # the first case of these jobs keeps its holder inside for seconds while the other requests are queued
            if vi == 0:
                for k in range(1 if q else 6):
                    jobs.append(Job('h_rwlock', variant, pseed(seed, prop, 95), 260 + 11 * k, 2, ['mode=pattern', 'longhold=%d' % (5600 if q else 11000)], label='long-hold'))
            n_m = marathons[0 if q else 1]
            for frm, cnt in split(n_m, 2 if q else 8):
                if cnt:
                    jobs.append(Job('h_rwlock', variant, pseed(seed, prop, 90 + vi), frm, cnt, ['mode=marathon', 'marathon=130000'], label='marathon'))
        return jobs
    return mk


RW_FIELDS = ('runs', 'patterns', 'sections', 'reads', 'writes', 'parks', 'maxReaders', 'batches2', 'windowHits',
             'idleAsleepHits', 'runsWithHit', 'pairsLive', 'pairsWW', 'pairsWR', 'pairsRW', 'maxQueue', 'idleProbes',
             'readersNoWriter', 'readerParksJudged', 'rendezvous', 'rendezvousReaders', 'predictedParks',
             'predictedFast', 'lateArrivalPatterns', 'lateArrivals', 'sectionsNestedInOtherResource', 'recursiveReadLocks', 'queuesDeeperThan64', 'readerCrowdsOver255', 'simultaneousReadersOver255', 'holdersKeptInsideForSeconds', 'marathonRequests', 'marathonReleasesWithQueue', 'spuriousWakeupsInjected', 'delaysAfterWake', 'delaysCondEntry', 'delaysOther', 'condWaits')


def rw_evidence(rule):
    def f(agg, samples, distinct, tier):
        return cov(agg.get('runs', 0) + agg.get('patterns', 0), distinct, rule, samples, observed=pick(agg, *RW_FIELDS))
    return f


RW_ASSUME = ['stamps come from one seq_cst counter; a stamp taken before P and one taken after Q order P before Q only when P happens-before Q',
             'the interposer sees every pthread mutex/condvar operation of libstdc++ (std::mutex, std::condition_variable) in this process',
             'schedules are sampled (delays at legal suspension points, CPU pinning), not enumerated']

SPECS['C01'] = dict(
    title='Resource: a writer never shares the lock',
    jobs=rw_jobs('C01', (40, 1200), (1200, 40000), variants=('mon', 'mon-ndebug', 'asan'), marathons=(2, 64)),
    require={'any': {'windowHits': 50, 'sections': 50000, 'parks': 5000}},
    evidence=rw_evidence('case = one stress run (2-32 threads, seeded read/write sections, raw calls and guards, delay profile, CPU pinning) '
                         'or one scripted arrival pattern; every section entry is checked against a packed occupancy word and a two-word data '
                         'invariant. non-trivial = the case contained a read batch in which one member called unlock before a sibling had '
                         'returned from lock (the window the property names) or, for patterns, at least two queued requests; '
                         'distinct = distinct fingerprints of the grant/release order'),
    assumptions=RW_ASSUME)

SPECS['C02'] = dict(
    title='Resource: every request is eventually granted',
    jobs=rw_jobs('C02', (30, 1200), (900, 40000), variants=('mon', 'mon-ndebug'), marathons=(2, 64)),
    require={'any': {'idleAsleepHits': 50, 'idleProbes': 100, 'parks': 5000}},
    evidence=rw_evidence('same executions as C01; deciding monitors: quiescence oracle (all threads in kernel state S inside '
                         'cond_wait/join/mutex_lock, no synchronisation event for 5 samples = nothing can ever run again) and an idle '
                         'probe after each case (write, two reads, write on the released Resource must not enter cond_wait). '
                         'non-trivial = case in which the lock went idle while an admitted waiter was still asleep (idleAsleepHits) '
                         'or >=2 queued requests; distinct = grant/release-order fingerprints'),
    assumptions=RW_ASSUME + ['"eventually" is decided as: no quiescent stuck state reachable in the produced runs; a slow run is inconclusive'])

SPECS['C03'] = dict(
    title='Resource: FIFO fairness',
    jobs=rw_jobs('C03', (16, 600), (2400, 100000), variants=('mon', 'mon-ndebug'), marathons=(2, 64)),
    require={'any': {'pairsLive': 5000, 'pairsWW': 100, 'pairsWR': 100, 'pairsRW': 100, 'patterns': 252, 'lateArrivalPatterns': 300}},
    evidence=rw_evidence('scripted arrival patterns (initial holder R/W, every arrival word over {R,W} of length 1..6 enumerated = 252, then '
                         'seeded words of length 7..10; each arrival is started only after the previous one is observed parked or granted; in ~30% of the patterns one request of the '
                         'first wave keeps the lock until a second wave of 1-4 requests has arrived, so requests also arrive while queued ones are being served) plus '
                         'free-running stress; rule: A observed parked (cond_wait entry stamp, taken under the Resource mutex) before B was '
                         'issued and not both readers => unlock_call(A) < lock_return(B). pairsLive = judged pairs where A was still waiting '
                         'or inside when B arrived. non-trivial = case with >=2 simultaneously queued requests; distinct = (pattern, grant order) fingerprints'),
    assumptions=RW_ASSUME)

SPECS['C12'] = dict(
    title='Resource lets readers share',
    jobs=lambda tier, seed: (
        rw_jobs('C12', (12, 400), (1500, 60000), stress_args=['wp=0'], pattern_args=['rdv=700'], variants=('mon', 'mon-ndebug'))(tier, seed)
        + rw_jobs('C12', (8, 300), (0, 0), variants=('mon',), marathons=(1, 16))(tier, seed + 1)),
    require={'any': {'readersNoWriter': 20000, 'rendezvous': 500, 'rendezvousReaders': 1000, 'readerParksJudged': 100}},
    evidence=rw_evidence('(a) writer-free stress (4-32 readers): no read request may enter cond_wait; mixed stress: a reader may park only if '
                         'some writer interval [issue, unlock_return] overlaps its [issue, lock_return]; scripted patterns predict exactly '
                         'which arrivals take the fast path. (b) rendezvous: every batch of >=2 readers (queued behind a writer, or joining '
                         'active readers) waits on a barrier inside the section; a lock that admits them one by one leaves all threads '
                         'blocked = deadlock verdict of the quiescence oracle. non-trivial = pattern with a reader batch / run with reader overlap'),
    assumptions=RW_ASSUME)


RW_NOTE = ('Decides executions actually produced: schedules are sampled and steered (delays at pthread suspension points, CPU pinning), '
           'not enumerated. Trusted: the interposer\'s park table and the seq_cst stamp counter; glibc futex semantics for the quiescence verdict.')
for _p, _txt, _tech in (
    ('C01', 'Online occupancy monitor (packed atomic word checked at every section entry) and torn-data invariant over stress runs and scripted '
            'arrival patterns of the real Resource, in assertion-enabled and NDEBUG builds; held = no overlap in any produced execution, with '
            'thousands of hits of the named window (batch sibling finished before another member woke).',
     'runtime monitoring: occupancy-word oracle + data invariant under interposer-steered stress'),
    ('C02', 'Quiescence oracle (every thread asleep inside a blocking primitive with no pending wake-up = definitive deadlock, not a timeout) plus '
            'an idle probe after every case; liveness is restated as absence of reachable stuck states in the produced runs.',
     'runtime monitoring: deadlock/quiescence oracle via pthread interposer + idle probe'),
    ('C03', 'Pairwise FIFO rule over stamped call/park/return events: exhaustive arrival words up to length 6 (x2 holders) with serialised '
            'arrivals, seeded longer words, and free-running stress; a violation is a stamp order impossible in any FIFO-fair execution.',
     'runtime monitoring: offline trace checker (arrival order vs grant order) over interposer park stamps'),
    ('C12', 'Reader-never-parks-without-writer rule over writer-free and mixed histories with exact fast-path prediction in scripted patterns, and '
            'rendezvous of every reader batch inside the critical section judged by the quiescence oracle.',
     'runtime monitoring: park-table oracle + rendezvous deadlock oracle'),
):
    SPECS[_p]['manifest'] = dict(engine='h_rwlock', text=_txt, note=RW_NOTE, technique=_tech)
ENGINES['h_rwlock']['kind'] = 'stress + scripted-pattern harness for rwp::Resource with pthread interposer (park table, delay injection, quiescence oracle)'


# ----------------------------------------------------------------------------- containers (C04 C09 C14)

def model_jobs(engine, prop, cases, variants_thorough=('asan', 'asan-O0', 'asan-clang'), args=(), vg_cases=0, parts=NCPU):
    def mk(tier, seed):
        q = tier == 'quick'
        jobs = []
        variants = ('asan',) if q else variants_thorough
        for vi, variant in enumerate(variants):
            n = cases[0] if q else (cases[1] if vi == 0 else max(cases[0], cases[1] // 10))
            for frm, cnt in split(n, parts):
                jobs.append(Job(engine, variant, pseed(seed, prop, vi), frm, cnt, list(args), label=variant))
        # the same histories in the plain build: AddressSanitizer's quarantine keeps freed blocks from being handed out
        # again, which hides everything that depends on an address being REUSED (caches keyed by address, ABA)
        n = cases[0] // 4 if q else cases[1] // 10
        for frm, cnt in split(n, 4 if q else 8):
            jobs.append(Job(engine, 'mon', pseed(seed, prop, 20), frm, cnt, list(args), label='plain'))
        if not q and vg_cases:
            for frm, cnt in split(vg_cases, parts):
                jobs.append(Job(engine, 'plain', pseed(seed, prop, 9), frm, cnt, list(args), label='valgrind', valgrind=True, timeout=3000))
        return jobs
    return mk


def ring_evidence(rule):
    def f(agg, samples, distinct, tier):
        return cov(agg.get('histories', 0), distinct, rule, samples,
                   observed=pick(agg, 'histories', 'ops', 'nontrivialCases', 'stateComparisons', 'capacitiesOver2G', 'hugeSkipped', 'trackedCtors', 'trackedDtors', 'trackedMoves', 'shellDtors'),
                   operations=agg.get('opCount', {}), operations_on_wrapped_layout=agg.get('opOnWrapped', {}),
                   operations_on_full_buffer=agg.get('opOnFull', {}))
    return f


SAN_NOTE = ('Decides the histories actually generated. Trusted: AddressSanitizer/UBSan/LeakSanitizer (red zones miss far and intra-object '
            'overflows), the reference model, and the generator respecting the documented preconditions.')

SPECS['C04'] = dict(
    title='RingBuffer behaves as a bounded deque',
    jobs=lambda tier, seed: (model_jobs('h_ring', 'C04', (80000, 3000000), vg_cases=4000)(tier, seed)
                             # capacities beyond 2^31 / 2^32 slots: plain build (under ASan every realloc of such a block is a 4 GiB copy)
                             + [Job('h_ring', 'mon', pseed(seed, 'C04', 30), frm, cnt, ['huge=1000'], label='huge') for frm, cnt in split(48 if tier == 'quick' else 4000, 2 if tier == 'quick' else 8)]),
    require={'any': {'histories': 5000, 'nontrivialCases': 2000}},
    evidence=ring_evidence('case = seeded history (1-200 operations, up to 4 live buffers, capacity 1-17, both overwrite modes, element types int / 24-byte POD / '
                           'lifetime-tracked class / std::string without resize) run in lock-step with a std::deque model; after every operation size, capacity, '
                           'empty/full, every element through const and mutable operator[], front/back, both iterations, iterator arithmetic, returned references '
                           'and popped values are compared. non-trivial = some operation was applied to a wrapped or full layout; distinct = distinct operation histories'),
    assumptions=['generator respects preconditions: no pop/front/back on empty, no push on a full non-overwriting buffer, index < size, resize(n>=1), moved-from buffers only destroyed or assigned to',
                 'std::string is not bitwise relocatable in libstdc++: string histories contain no resize'],
    manifest=dict(engine='h_ring', text='Lock-step comparison of the real RingBuffer with an executable bounded-deque model after every operation of tens of thousands of seeded '
                  'histories, under ASan+UBSan; layouts (head position, wrap-around, full) are measured so that "held" is stated with the layouts actually visited.',
                  note=SAN_NOTE, technique='runtime monitoring: lock-step reference model (bounded deque) under ASan/UBSan'))

SPECS['C09'] = dict(
    title='RingBuffer element lifetimes',
    jobs=model_jobs('h_ring', 'C09', (80000, 3000000), vg_cases=4000),
    require={'any': {'histories': 5000, 'nontrivialCases': 2000, 'trackedDtors': 100000}},
    evidence=ring_evidence('C04 histories over the lifetime-tracked element type (identity = serial number stored in the object, so memcpy/realloc relocation is '
                           'invisible but the object a destructor ran on is known), biased towards copy-assignment onto used buffers and shrinking wrapped / offset '
                           'buffers; after every operation: every element of every buffer is a live registered object with the model value, no object id occurs twice, '
                           '#live values == sum of sizes (+ what a moved-from buffer may still own); at the end of a history #live == 0; ASan/LSan watch the raw storage. '
                           'non-trivial = operation on a wrapped or full layout; distinct = distinct histories'),
    assumptions=['moved-from shells left by pop may be destroyed once, overwritten or abandoned (RingBufferEfficiencyTest pins this)',
                 'a moved-from buffer may keep the values it was swapped with until it is destroyed or assigned to'],
    manifest=dict(engine='h_ring', text='Lifetime registry reconciled after every operation (which object each constructor, assignment and destructor ran on), plus ASan heap checks '
                  'and LeakSanitizer, over seeded histories that concentrate on shrinking resize of wrapped buffers and copy assignment onto used buffers.',
                  note=SAN_NOTE, technique='runtime monitoring: object-lifetime registry + ASan/LSan over model-generated histories'))


SPECS['C14'] = dict(
    title='Array value semantics',
    jobs=lambda tier, seed: (model_jobs('h_array', 'C14', (120000, 8000000), vg_cases=4000)(tier, seed)
                             # arrays of more than 2^31 / 2^32 elements (2-4 GiB each; plain build, the oracle is the content)
                             + [Job('h_array', 'mon', pseed(seed, 'C14', 30), frm, 1, ['mode=huge', 'cpubudget=3000'], label='huge', timeout=3600) for frm in (range(1) if tier == 'quick' else range(6))]),
    require={'any': {'histories': 5000, 'nontrivialCases': 2000, 'zeroLength': 500, 'trackedDtors': 50000}},
    evidence=lambda agg, samples, distinct, tier: cov(
        agg.get('histories', 0), distinct,
        'case = seeded history (1-80 operations, up to 4 live arrays, lengths 0-64) over every construction path (pointer+length copied, pointer+length adopted, '
        'initializer list, size, size+value, default), copy/move construction and assignment, self-assignment, swap, both resize overloads, element writes through '
        '[]/front/back/iterators, destruction; element types int, double, unsigned char, lifetime-tracked class, std::string (no resize: not bitwise relocatable). '
        'After every operation size, every determinate element, iteration, storage independence and the lifetime registry are reconciled. '
        'non-trivial = class-type pointer+length construction, a copy of a non-empty array or a size-changing resize; distinct = distinct histories',
        samples, observed=pick(agg, 'histories', 'ops', 'nontrivialCases', 'stateComparisons', 'zeroLength', 'nestedElementRuns', 'arraysOver2G', 'hugeSkipped', 'trackedCtors', 'trackedDtors', 'trackedMoves'),
        operations=agg.get('opCount', {}), construction_lengths=agg.get('lengths', {})),
    assumptions=['elements of arithmetic type added by Array(n)/resize(n) are indeterminate by design and are not read',
                 'a moved-from Array is only destroyed or assigned to',
                 'front()/back() only on non-empty arrays; pointer+length adoption (copy=false) is given malloc storage holding constructed elements'],
    manifest=dict(engine='h_array', text='Lock-step comparison with a std::vector model after every operation plus the object-lifetime registry and ASan/LSan, over seeded histories '
                  'that exercise every construction path including pointer+length for class types and length 0, and arrays of more than 2^31 / 2^32 elements through every copy, move and resize path.',
                  note=SAN_NOTE, technique='runtime monitoring: lock-step reference model + lifetime registry under ASan/UBSan/LSan'))


# ----------------------------------------------------------------------------- Subject (C05 C10)

def subject_evidence(rule):
    def f(agg, samples, distinct, tier):
        return cov(agg.get('histories', 0), distinct, rule, samples,
                   observed=pick(agg, 'histories', 'ops', 'notifies', 'nestedNotifies', 'calls', 'inRoundActions', 'staleRejected', 'selfUnsub',
                                 'unsubOther', 'lazyRemovals', 'handleMoves', 'nontrivialCases', 'maxDepth', 'tokensDestroyed', 'countdownObservers', 'callbacksThatThrew', 'chainedSubjectRuns', 'longLifeRuns', 'longLifeCycles', 'burstObservers'),
                   operations=agg.get('opCount', {}), signatures=agg.get('signatures', {}), in_round_actions=agg.get('inRoundActionKinds', {}))
    return f


SPECS['C05'] = dict(
    title='Subject delivers to exactly the live, unmuted observers, in order',
    jobs=model_jobs('h_subject', 'C05', (64000, 6000000), variants_thorough=('asan', 'asan-O0')),
    require={'any': {'histories': 5000, 'notifies': 50000, 'staleRejected': 5000, 'lazyRemovals': 5000, 'handleMoves': 5000}},
    evidence=subject_evidence('case = seeded history (1-150 steps, up to 40 observers, a second Subject as source of foreign handles with equal numeric ids) of subscribe '
                              '(callable, self-view callable, unique_ptr, raw pointer), unsubscribe via handle / via subject, mute, unmute, invalidate, handle move-construct/-assign, '
                              'stale-handle probes and notify, for signatures <>, <int>, <const std::string&>, <int, std::string>, <Payload by value>, <int&>. Every real invocation '
                              'must be the next one predicted by the model (who, order, once, argument digest); handle state and token destruction are checked after every step. '
                              'non-trivial = a notify over >=2 observers with a muted/invalid one, or a rejected stale handle; distinct = distinct histories. 3 per mille of the cases are long lives instead: '
                              'one Subject<int> goes through 300 .. 140000 subscribe/unsubscribe cycles (past 2^16 and 2^17 subscription ids) while residents stay subscribed, with exact deliveries'),
    assumptions=['isValid() between invalidation and the next notify is left unjudged', 'isMuted/mute/unmute/handle.unsubscribe() only on subscribed handles (documented precondition)'],
    manifest=dict(engine='h_subject', text='Online co-simulation: an executable model of the Subject predicts every invocation and the real callbacks check themselves against it, over seeded '
                  'histories for six argument signatures, with stale/foreign handle probes and per-observer destruction tokens, under ASan/UBSan/LSan.',
                  note=SAN_NOTE, technique='runtime monitoring: online reference-model co-simulation under ASan/UBSan'))

SPECS['C10'] = dict(
    title='Subject tolerates callbacks that change it during notify',
    jobs=model_jobs('h_subject', 'C10', (64000, 6000000), variants_thorough=('asan', 'asan-O0')),
    require={'any': {'histories': 5000, 'inRoundActions': 50000, 'selfUnsub': 5000, 'unsubOther': 3000, 'nestedNotifies': 5000}},
    evidence=subject_evidence('C05 histories whose callbacks run seeded scripts while being notified: subscribe a new observer, unsubscribe self / an already-called / a not-yet-called observer '
                              '(via handle or subject), mute, unmute, invalidate any target, call notify again (nesting <= 3), or throw (the exception must reach the caller of that notify and the round ends there). The script acts on the real Subject and on the model together; '
                              'the model keeps one snapshot per active round and predicts the next invocation; a destruction token per observer must die exactly once, never while the observer is subscribed, '
                              'and at the latest with the Subject. non-trivial = history with >=1 in-round action; distinct = distinct histories. 3 per mille of the cases are bursts instead: one callback '
                              'subscribes and drops (or keeps) 255 .. 131072 observers and then unsubscribes a neighbour that has not been called yet'),
    assumptions=['when a removed observer object is destroyed is not judged (at once, at the end of the round or later), only that it is never destroyed while subscribed, and exactly once at the latest with its Subject',
                 'callbacks do not destroy the Subject itself'],
    manifest=dict(engine='h_subject', text='The same co-simulation with scripted callbacks that mutate the Subject mid-round (including self-unsubscribe and nested notify); ASan decides memory safety, '
                  'the model decides skipped / deferred / continued delivery, tokens decide destruction.',
                  note=SAN_NOTE, technique='runtime monitoring: online co-simulation with scripted re-entrant callbacks under ASan'))


# ----------------------------------------------------------------------------- SubjectRouter (C06 C13)

def router_evidence(rule):
    def f(agg, samples, distinct, tier):
        return cov(agg.get('histories', 0), distinct, rule, samples,
                   observed=pick(agg, 'histories', 'ops', 'notifies', 'wildcardNotifies', 'multiReceiverNotifies', 'byValueMultiReceiver', 'calls', 'shrinks',
                                 'removedKeys', 'measures', 'existsProbes', 'probesAfterShrink', 'fullShrinks', 'lazyRemovals', 'nontrivialCases', 'universeKeys', 'specialRuns', 'longLifeCycles', 'deepKeyRuns', 'throwingObserverRuns', 'nestedNotifyRuns'),
                   operations=agg.get('opCount', {}), signatures_by_depth=agg.get('signatures', {}), routers=agg.get('routers', {}))
    return f


ROUTER_ASSUME = ['signature discipline: the argument signature is a function of the key depth, so every key a pattern can reach has the signature the notify uses (anything else is undefined by the library documentation)',
                 'UBSan vptr check disabled: the router stores and destroys every Subject<Args...> as Subject<> by design',
                 'order of delivery across different keys is not judged (the property does not fix it)']

SPECS['C06'] = dict(
    title='SubjectRouter reaches exactly the matching observers',
    jobs=model_jobs('h_router', 'C06', (12000, 600000), variants_thorough=('asan', 'asan-O0')),
    require={'any': {'histories': 2000, 'wildcardNotifies': 20000, 'multiReceiverNotifies': 5000, 'byValueMultiReceiver': 1000}},
    evidence=router_evidence('case = seeded history (2-70 steps) of subscribe / unsubscribe / mute / invalidate / shrink / notify on SubjectRouter or ConcurrentSubjectRouter (one thread) over a colliding name '
                             'alphabet {a, ab, a.b, a+, b, ""} at depth 1-3, patterns with concrete, wildcard and regex levels (including regexes matching several siblings, nothing, the empty name, and '
                             'regex-looking plain strings); one of six signatures per depth. Receivers, invocation counts, received argument values for every receiver and the return value are compared with an '
                             'independent level-by-level match over the model. non-trivial = a notify that reached >=2 observers or a shrink; distinct = distinct histories. 4 per mille of the cases are fixed-answer scenarios '
                             'instead: a key that lives through up to 140000 subscriptions next to a resident observer, keys and patterns of 255-512 levels, an observer that throws'),
    assumptions=ROUTER_ASSUME,
    manifest=dict(engine='h_router', text='Lock-step routing-tree model with independently recomputed matching; every receiver checks the argument values it got (by-value payloads show if they were consumed), '
                  'for both router classes, under ASan/UBSan.', note=SAN_NOTE, technique='runtime monitoring: lock-step reference model of the routing tree under ASan/UBSan'))

SPECS['C13'] = dict(
    title='shrink is invisible to delivery; exists/depth consistent',
    jobs=model_jobs('h_router', 'C13', (8000, 400000), variants_thorough=('asan', 'asan-O0')),
    require={'any': {'histories': 2000, 'shrinks': 10000, 'removedKeys': 3000, 'fullShrinks': 2000, 'existsProbes': 50000, 'probesAfterShrink': 30000}},
    evidence=router_evidence('C06 generator weighted towards unsubscribe / invalidate / shrink (concrete, regex, wildcard patterns of depth 1-4) / re-subscribe. After every operation the stored-key set is measured '
                             'with exists() on all 258 concrete keys of the universe: prefix-closed; grows only by the prefixes of a subscribed key; shrinks only in shrink, and then only by dead keys whose parent '
                             'lies along the pattern; keys at or above a held subscription stay; a full-depth wildcard shrink leaves no dead key; exists(pattern) == some stored key matches level by level; '
                             'depth() == 1 + longest stored key; a fixed probe set of notifies after each shrink reaches exactly the model receivers. non-trivial = history with a shrink; distinct = distinct histories. '
                             '4 per mille of the cases are fixed-answer scenarios instead: keys of 255-512 levels (depth(), exists(), full-depth shrink), and a shrink after an observer threw'),
    assumptions=ROUTER_ASSUME + ['which dead siblings under a visited node a shrink drops is not prescribed: any dead key whose parent lies along the pattern may go',
                                 'a key whose only subscriptions are invalidated but not yet lazily removed may stay'],
    manifest=dict(engine='h_router', text='Black-box structural oracle: the stored-key set is measured through exists() over the whole finite key universe after every operation and checked against '
                  'self-consistency rules and the subscription model; deliveries after every shrink are checked against the unchanged model.',
                  note=SAN_NOTE, technique='runtime monitoring: measured-state invariants + reference model under ASan/UBSan'))


# ----------------------------------------------------------------------------- Observable (C16)

SPECS['C16'] = dict(
    title='Observable notifies exactly on change, with the new value',
    jobs=model_jobs('h_observable', 'C16', (160000, 12000000), variants_thorough=('asan', 'asan-O0')),
    require={'any': {'histories': 5000, 'changingOps': 100000, 'nonChangingOps': 100000, 'eqEqualButDifferentAssignments': 1000, 'subscriberCalls': 50000}},
    evidence=lambda agg, samples, distinct, tier: cov(
        agg.get('histories', 0), distinct,
        'case = seeded history (1-80 operations) of =, apply, +=, -=, *=, /=, ++/-- (prefix and postfix) and subscribe/unsubscribe of 0-4 recording subscribers on Observable<int>, <long>, '
        '<double> with a 0.5 tolerance comparator, <float> and <std::string>; a model value of the same type with the same Eq decides per operation whether every live subscriber must be called '
        'exactly once with the post-operation value (by reference to the held value) or nobody; value() is compared bit for bit, an Eq-equal assignment must leave it untouched, and with default '
        'equality every recording subscriber must hold value(). Values are kept where the arithmetic itself is defined. non-trivial = history with a value-changing operation; distinct = distinct histories',
        samples, observed=pick(agg, 'histories', 'ops', 'changingOps', 'nonChangingOps', 'subscriberCalls', 'subscribes', 'unsubscribes', 'eqEqualButDifferentAssignments', 'observablesMovedBeforeUse', 'reentrantClampHistories', 'reentrantCorrections', 'longLifeCycles', 'throwingSubscriberRuns', 'unsubscribeInCallbackRuns', 'chainedObservableRuns', 'nestedOperationRuns', 'nontrivialCases'),
        operations=agg.get('opCount', {}), types=agg.get('types', {})),
    assumptions=['no signed overflow, no integer division by zero, no NaN: UBSan then speaks only about tulz', 'the Observable is not moved while subscriptions exist'],
    manifest=dict(engine='h_observable', text='Lock-step model of the held value with the same equality; the call log of recording subscribers is compared after every operation over seeded histories for '
                  'five value types including a tolerance comparator, under ASan/UBSan.', note=SAN_NOTE, technique='runtime monitoring: lock-step reference model under ASan/UBSan'))


# ----------------------------------------------------------------------------- LocaleInfo (C19)

LOCALE_FORMS = 408   # 224 language names + 184 distinct codes: cases [0, 408) are the exhaustive part


def locale_jobs(tier, seed):
    q = tier == 'quick'
    jobs = []
    variants = ('asan',) if q else ('asan', 'asan-O0', 'asan-clang')
    hostile = 96000 if q else 16000000
    for vi, variant in enumerate(variants):
        for frm, cnt in split(LOCALE_FORMS, NCPU):
            jobs.append(Job('h_locale', variant, pseed(seed, 'C19', vi), frm, cnt, label='exhaustive'))
        n = hostile if vi == 0 else hostile // 20
        for frm, cnt in split(n, NCPU):
            jobs.append(Job('h_locale', variant, pseed(seed, 'C19', vi), LOCALE_FORMS + frm, cnt, label='hostile'))
    if not q:
        for frm, cnt in split(5000, NCPU):
            jobs.append(Job('h_locale', 'plain', pseed(seed, 'C19', 9), LOCALE_FORMS + frm, cnt, label='valgrind', valgrind=True, timeout=3000))
        jobs.append(Job('h_locale', 'plain', pseed(seed, 'C19', 9), 0, 6, label='valgrind-exhaustive-sample', valgrind=True, timeout=3000))
    return jobs


SPECS['C19'] = dict(
    title='LocaleInfo::get is total, memory-safe and table-consistent',
    jobs=locale_jobs,
    require={'any': {'validCombinations': 600000, 'hostileStrings': 90000, 'longParts': 8000, 'dotBeforeUnderscore': 4000, 'unknownLanguageKnownCountry': 2000}},
    evidence=lambda agg, samples, distinct, tier: cov(
        agg.get('calls', 0), distinct,
        '(a) exhaustive: every table language (224 names and 184 distinct codes) x every table country (249, by code and by name) x {no charset, .UTF-8, .1252}; (b) hostile classes: parts of 60-70, 100, '
        '1000, 100000 bytes, "." before "_", several "_", empty parts, unknown language + known country and vice versa, case variants, prefixes/suffixes of valid names, odd charsets; (c) seeded random byte '
        'strings of length 0-199. Oracle: independent parse + lookup in the public tables; pointer membership in the tables decided without dereferencing (result materialised in 0xA5-filled storage); '
        'ASan for the 64-byte scratch buffer. non-trivial / distinct = distinct hostile or random strings (the exhaustive part is counted in validCombinations)',
        samples, exhaustive_part_complete=agg.get('classes', {}).get('exhaustive-language-form', 0) >= LOCALE_FORMS,
        observed=pick(agg, 'calls', 'validCombinations', 'fallbacks', 'byCode', 'byName', 'hostileStrings', 'randomByteStrings', 'longParts', 'dotBeforeUnderscore', 'unknownLanguageKnownCountry'),
        classes=agg.get('classes', {})),
    assumptions=['for a language given by name the result must list that name, carry a code of that name and list only names of that code (the implementation returns the one name; "all table names" is judged for lookups by code)',
                 'a country name containing "." (Virgin Islands, U.S.) is cut at the dot by the documented format and is therefore "any other string"',
                 'fallback strings are literals: judged by content, not by pointer identity'],
    manifest=dict(engine='h_locale', text='Exhaustive enumeration of every table language x country x charset form plus tens of thousands of hostile and random strings against an independent oracle, under ASan/UBSan '
                  '(thorough: -O0, clang and a valgrind memcheck sample for uninitialised fields).', note=SAN_NOTE,
                  technique='runtime monitoring: exhaustive + hostile input sweep against an independent table oracle under ASan/UBSan (valgrind memcheck sample)'))


# ----------------------------------------------------------------------------- File (C17), Path (C18)

def fs_jobs(engine, prop, cases, big=None):
    def mk(tier, seed):
        q = tier == 'quick'
        jobs = []
        for vi, variant in enumerate(('asan',) if q else ('asan', 'asan-clang')):
            n = cases[0] if q else (cases[1] if vi == 0 else cases[1] // 10)
            for frm, cnt in split(n, NCPU):
                jobs.append(Job(engine, variant, pseed(seed, prop, vi), frm, cnt, label=variant))
        if not q and big:
            for frm, cnt in split(big[0], 8):
                jobs.append(Job(engine, 'asan', pseed(seed, prop, 7), 10 ** 7 + frm, cnt, list(big[1]), label='large'))
        return jobs
    return mk


SPECS['C17'] = dict(
    title='File round-trips bytes exactly',
    jobs=fs_jobs('h_file', 'C17', (12000, 1000000), big=(64, ['maxlen=8388608'])),
    require={'any': {'files': 2000, 'filesWithNul': 500, 'filesWith0xFF': 500, 'filesWithCRLF': 200, 'emptyFiles': 100, 'appendSessions': 1000, 'sizeCalls': 3000, 'seeks': 3000, 'errorProbes': 500}},
    evidence=lambda agg, samples, distinct, tier: cov(
        agg.get('files', 0), distinct,
        'case = one file: seeded content (random bytes, hostile mix of NUL/0xFF/0x1A/CR/LF, all-0xFF, CRLF runs, text with NUL; length 0-64 KiB, thorough up to 8 MiB) split into successive write() calls through '
        'the three overloads (raw with element size 1 and 2, Array<byte>, std::string) in Write/WriteText over an optional longer pre-existing file (truncation), then 0-2 Append/AppendText sessions (also onto a '
        'missing file), verified on disk with std::filesystem/ifstream after every close; then read in Read and ReadText mode through read(), readStr() and read(buffer,size,count) interleaved with seek '
        '(all origins)/tell/size against a position model; NotFound / NotFile probes. non-trivial = non-empty file; distinct = distinct (content, split, mode)',
        samples, observed=pick(agg, 'files', 'bytesWritten', 'bytesRead', 'writeCalls', 'appendSessions', 'truncations', 'seeks', 'sizeCalls', 'sizeCallsWhileWriting', 'sparseFilesOver2GiB', 'descriptorChecks', 'seeksPastEnd', 'twoFilesOpenAtOnce', 'readCalls', 'errorProbes', 'reopenedOnSamePath', 'readerObjectsReused', 'missingBelowRegularFile', 'missingOverlongName', 'missingInMissingDirectory',
                               'emptyFiles', 'filesWithNul', 'filesWith0xFF', 'filesWithCRLF', 'filesOver1MB', 'nontrivialCases'),
        content_classes=agg.get('contentClasses', {}), modes=agg.get('modes', {})),
    assumptions=['POSIX only: text and binary modes are byte-identical here; the Windows CRLF translation branch is never executed',
                 'reading through a stream opened for write/append and writing into a missing directory are outside the statement and not done'],
    manifest=dict(engine='h_file', text='Round-trip of generated hostile byte strings through the real File on a real filesystem against a byte-vector/position model and std::filesystem, under ASan/UBSan.',
                  note=SAN_NOTE, technique='runtime monitoring: reference model + filesystem cross-check under ASan/UBSan'))

SPECS['C18'] = dict(
    title='Path agrees with the filesystem',
    jobs=fs_jobs('h_path', 'C18', (4000, 300000), big=(40, ['maxfile=4000000'])),
    require={'any': {'trees': 500, 'nodes': 5000, 'emptyDirectories': 200, 'relativeQueries': 3000, 'trailingSeparatorQueries': 500, 'missingPathProbes': 1000,
                     'identitiesChecked': 50000, 'visitors': 500, 'nestedVisitors': 200, 'deepChains': 100, 'maxCwdBytes': 600}},
    evidence=lambda agg, samples, distinct, tier: cov(
        agg.get('trees', 0) + agg.get('pathStrings', 0), distinct,
        'even cases: a generated tree (depth <= 4, fan-out <= 6, empty directories, files of 0 B - 100 KB, thorough a few MB; names with spaces, dots, leading dots, UTF-8, arbitrary high bytes, 200-byte names; '
        'no symlinks) compared node by node with std::filesystem through absolute paths, relative paths and trailing-separator paths: exists/isFile/isDirectory/size (directory = sum of regular files beneath)/'
        'listChildren (multiset equality, no "." / ".."), missing paths and their exceptions, nested DirectoryVisitors (absolute, relative, empty path) with cwd before/inside/after; every tenth case is a chain '
        'of 3-7 nested directories with 20-200 byte names (working directory up to ~1400 bytes) descended with one visitor per level, each of which must restore its predecessor. odd cases: 200 path strings '
        'each: join/getPathName/getParentDirectory identities for d from segments and "/" separators and separator-free n, join with an absolute path, arbitrary strings for memory safety only. '
        'distinct = distinct trees + distinct string triples',
        samples, observed=pick(agg, 'trees', 'nodes', 'directories', 'files', 'emptyDirectories', 'nodeQueries', 'relativeQueries', 'trailingSeparatorQueries', 'missingPathProbes', 'oddNames', 'randomSegments', 'descriptorChecks', 'visitorsOfTheCurrentDirectory', 'directoriesWithThousandsOfEntries', 'bytesInFiles',
                               'pathStrings', 'identitiesChecked', 'absoluteJoins', 'arbitraryStrings', 'visitors', 'nestedVisitors', 'deepChains', 'maxCwdBytes')),
    assumptions=['identities are judged for directories written with "/" separators (Path::Separator); strings with backslashes, the empty string and lone separators are only required not to trip the sanitizers',
                 'runs as a user who can read every generated entry (exists() is implemented with fopen)'],
    manifest=dict(engine='h_path', text='Generated directory trees compared node by node with std::filesystem, string identities exactly as stated over generated path strings, working directory observed around nested '
                  'DirectoryVisitors, under ASan/UBSan.', note=SAN_NOTE, technique='runtime monitoring: differential check against std::filesystem + stated identities under ASan/UBSan'))


# ----------------------------------------------------------------------------- Thread (C20)

def thread_jobs(tier, seed):
    q = tier == 'quick'
    jobs = []
    plan = (('mon', 3200), ('asan', 1600)) if q else (('mon', 240000), ('asan', 80000), ('mon-ndebug', 80000), ('asan-O0', 24000))
    for vi, (variant, n) in enumerate(plan):
        for frm, cnt in split(n, 8):
            jobs.append(Job('h_thread', variant, pseed(seed, 'C20', vi), frm, cnt, label=variant))
    # "no matter how late that thread is scheduled": the first case of each of these jobs holds the new thread up for seconds
    for k in range(2 if q else 12):
        jobs.append(Job('h_thread', 'mon', pseed(seed, 'C20', 30), 100000 + 7 * k, 3, ['lateus=%d' % (2600000 if q else 6500000), 'reuse=0', 'burst=0'], label='very-late-start'))
    return jobs


SPECS['C20'] = dict(
    title='tulz::Thread runs its callable once, on a live copy',
    jobs=thread_jobs,
    require={'any': {'starts': 1500, 'lateStarts': 700, 'polledFinishes': 500, 'runnables': 150, 'bodyDoneBeforeStartReturned': 100, 'threadCreationFailuresInjected': 40, 'detachedThenJoined': 40}},
    evidence=lambda agg, samples, distinct, tier: cov(
        agg.get('starts', 0), distinct,
        'case = one Thread started through start() or the constructor with a function pointer, a small closure, a 256-byte functor, a copyable functor (each carrying a canary poisoned by a volatile store in its '
        'destructor) and 0-3 lvalue arguments, or with a Runnable; the new thread is delayed 0-5 ms in the interposer trampoline before its first instruction while the starter returns from start() and '
        'overwrites its dead stack - or, in a quarter of the cases, the starter is held up right after pthread_create so that the callable has finished before start() returns; the starter '
        'overwrites 32 KB of its dead stack; monitors: canary at entry and exit of the call, invocation count == 1, executing tid != starter tid, arguments by address and value, isFinished() false inside the '
        'callable, a poller that sees isFinished() must then see the callable\'s last action, the same after join(); Runnable run once, destroyed once, after run(). ASan build: the same defect class shows as '
        'stack-use-after-scope/-return. non-trivial = the body began after start() had returned; distinct = distinct (kind, args, path, delay bucket) among those',
        samples, observed=pick(agg, 'starts', 'lateStarts', 'bodyDoneBeforeStartReturned', 'threadCreationFailuresInjected', 'detachedThenJoined', 'polledFinishes', 'burstsOfSameTypeCallables', 'startsDelayedBySeconds', 'reusedThreadObjects', 'maxStartsOfOneObject', 'runnables', 'canaryChecks', 'argumentIdentityChecks', 'callableCopiesObserved'), kinds=agg.get('kinds', {})),
    assumptions=['arguments are lvalues that outlive the thread (the statement quantifies over lvalue argument lists)', 'the Thread object outlives join()'],
    manifest=dict(engine='h_thread', text='Canary-carrying callables under manufactured late scheduling (trampoline delay + dead-stack clobbering) in a plain monitored build, and the same starts under ASan with '
                  'stack-use-after-return detection; completion ordering checked through marks written by the callable.',
                  note='Schedules are steered (thread-start delay), not enumerated; trusted: the interposer trampoline, ASan fake-stack detection.',
                  technique='runtime monitoring: canary/identity monitors with injected scheduling delay + ASan stack-use-after-return'))


# ----------------------------------------------------------------------------- ThreadPool (C07 C08)

def pool_jobs(prop, quick_plan, thorough_plan, args=()):
    def mk(tier, seed):
        jobs = []
        for vi, (variant, n) in enumerate(quick_plan if tier == 'quick' else thorough_plan):
            for frm, cnt in split(n, 8):
                jobs.append(Job('h_pool', variant, pseed(seed, prop, vi), frm, cnt, list(args), label=variant))
        return jobs
    return mk


POOL_FIELDS = ('programs', 'ops', 'tasksSubmitted', 'tasksRan', 'tasksDropped', 'closureTasks', 'stops', 'clears', 'drains', 'restarts', 'stopsWithRunningTask',
               'clearsWithRunningTask', 'stopsWithWorkerInPreBlockWindow', 'singleWorkerPrograms', 'hugeMaximumPrograms', 'programsNextToASecondPool', 'programsOwnedByAWorkerOfAnotherPool', 'maxWorkersSeen', 'delaysCondEntry', 'delaysAfterWake', 'delaysOther',
               'workerThreadsCreated', 'poolCondWaits')
POOL_NOTE = ('Schedules are sampled and steered by delays at the pool\'s own mutex/condvar operations, not enumerated; one owner thread, non-expiring workers. '
             'Trusted: interposer park table, glibc futex semantics for the quiescence verdict.')


def pool_evidence(rule):
    def f(agg, samples, distinct, tier):
        return cov(agg.get('programs', 0), distinct, rule, samples, observed=pick(agg, *POOL_FIELDS))
    return f


SPECS['C07'] = dict(
    title='ThreadPool: at most once, destroyed exactly once',
    jobs=pool_jobs('C07', (('mon', 4800), ('asan', 1200)), (('mon', 400000), ('asan', 80000), ('mon-ndebug', 100000))),
    require={'any': {'programs': 1500, 'tasksRan': 10000, 'tasksDropped': 5000, 'clearsWithRunningTask': 100, 'stopsWithRunningTask': 1000, 'singleWorkerPrograms': 300}},
    evidence=pool_evidence('case = seeded owner program (4-40 operations over start(Runnable), start(closure [, lvalue]), clear, stop, restart, waitDrain, getters, yield; stop storms) on a fresh pool with maximum '
                           '1/2/3/4/8 non-expiring workers. Tasks log run entry/exit, worker tid and destruction into records that outlive them; rules: runs <= 1, destroyed exactly once and after run() returned, '
                           'never destroyed while running (also ASan), tasks with no clear/stop after their submission run before waitDrain returns (a lost task = quiescence deadlock), no run entry stamped after '
                           'stop() returned, closure copies all destroyed, single worker = submission order. non-trivial = program with a stop and >=2 tasks; distinct = distinct owner programs'),
    assumptions=['one owner thread calls the pool (intended use)', 'expiry disabled: the property is about non-expiring workers'],
    manifest=dict(engine='h_pool', text='Per-task lifecycle log checked by exact rules over seeded owner programs with clear/stop/restart placed anywhere, under injected delays at the pool\'s synchronisation points; '
                  'ASan build catches a worker touching a freed task.', note=POOL_NOTE, technique='runtime monitoring: per-task event log + conservation rules, interposer delays, ASan'))

SPECS['C08'] = dict(
    title='ThreadPool::stop() terminates, pool quiescent and restartable',
    jobs=pool_jobs('C08', (('mon', 6400), ('asan', 1200)), (('mon', 800000), ('asan', 80000), ('mon-ndebug', 200000))),
    require={'any': {'stops': 15000, 'stopsWithWorkerInPreBlockWindow': 1000, 'restarts': 8000, 'stopsWithRunningTask': 1500}},
    evidence=pool_evidence('C07 programs with stop storms (start k tasks; stop immediately / after the first task started / after drain) and the delay at cond_wait entry enabled (worker has evaluated its predicate and '
                           'holds the queue mutex but has not blocked). Deciding monitors: quiescence oracle (owner in pthread_join, workers in cond_wait, nothing runnable = stop() can never return); after every '
                           'stop(): getThreadCount()==0, isRunning()==false, no task running, every earlier task destroyed exactly once; a start() after stop() runs its task; getThreadCount() and the number of '
                           'pthread_create calls per epoch never exceed the maximum. non-trivial = program with a stop and >=2 tasks; stopsWithWorkerInPreBlockWindow counts stop() calls that began while a worker '
                           'sat in that window'),
    assumptions=['one owner thread; non-expiring workers', 'termination is decided as absence of a reachable quiescent stuck state in the produced runs'],
    manifest=dict(engine='h_pool', text='Deadlock/quiescence oracle for stop() plus exact post-conditions after every stop and restart, with delays injected exactly in the predicate-evaluated-but-not-blocked window.',
                  note=POOL_NOTE, technique='runtime monitoring: quiescence (deadlock) oracle via pthread interposer + post-condition assertions'))


# ----------------------------------------------------------------------------- ConcurrentSubjectRouter (C11)

def crouter_jobs(tier, seed):
    q = tier == 'quick'
    jobs = []
    plan = (('mon', 180), ('asan', 60)) if q else (('mon', 8000), ('asan', 1600), ('mon-ndebug', 2400))
    for vi, (variant, n) in enumerate(plan):
        for frm, cnt in split(n, 6 if q else 8):
            jobs.append(Job('h_crouter', variant, pseed(seed, 'C11', vi), frm, cnt, label=variant))
    # small histories (2-4 threads x 2-4 operations) decided by a complete linearizability search
    for vi, (variant, n) in enumerate((('mon', 24000), ('asan', 6000)) if q else (('mon', 2000000), ('asan', 200000), ('mon-ndebug', 400000))):
        for frm, cnt in split(n, 4 if q else 8):
            jobs.append(Job('h_crouter', variant, pseed(seed, 'C11', 20 + vi), frm, cnt, ['mode=lin'], label=variant + '/lin'))
    # fast churn with exactly known answers (no callback sleeps, the tree is restructured at full speed)
    for vi, (variant, n) in enumerate((('mon', 32), ('asan', 16)) if q else (('mon', 2400), ('asan', 600), ('mon-ndebug', 600))):
        for frm, cnt in split(n, 4 if q else 8):
            jobs.append(Job('h_crouter', variant, pseed(seed, 'C11', 40 + vi), frm, cnt, ['mode=fast'], label=variant + '/fast'))
    # more than 255 deliveries in progress at once, then a write
    for vi, (variant, n) in enumerate((('mon', 6),) if q else (('mon', 300), ('mon-ndebug', 100))):
        for frm, cnt in split(n, 2 if q else 8):
            jobs.append(Job('h_crouter', variant, pseed(seed, 'C11', 60 + vi), frm, cnt, ['mode=crowd'], label=variant + '/crowd'))
    # two routers, an observer of the first forwards into the second while the second is written to
    for vi, (variant, n) in enumerate((('mon', 60),) if q else (('mon', 4000), ('asan', 800))):
        for frm, cnt in split(n, 4 if q else 8):
            jobs.append(Job('h_crouter', variant, pseed(seed, 'C11', 70 + vi), frm, cnt, ['mode=forward'], label=variant + '/forward'))
    return jobs


SPECS['C11'] = dict(
    title='ConcurrentSubjectRouter operations are atomic',
    jobs=crouter_jobs,
    parallel=8,
    require={'any': {'histories': 100, 'notifiesWithCallbacks': 5000, 'snapshotsWithConcurrentWrite': 2000, 'writesOverlappingNotify': 5000, 'unsubscribes': 3000, 'shrinks': 1000,
                     'linHistoriesWithOverlap': 8000, 'fastChurnOperations': 500000},
             },
    evidence=lambda agg, samples, distinct, tier: cov(
        agg.get('histories', 0), distinct,
        'case = one history: 4-16 threads x 40-140 operations mixing notify (concrete and wildcard patterns), subscribe, USubscription::unsubscribe, shrink, exists, depth over six keys; calls, returns and '
        'callback entry/exit are stamped by one seq_cst counter; callbacks are slow (yield / 20-170 us sleep) and never call the router; the router\'s Resource gets interposer delays. Rules per notify: no callback '
        'entered after that observer\'s unsubscribe returned; no write operation called and returned inside one delivery; the reached/missed observers are explained by one instant in [call, return] (exact interval '
        'arithmetic); nobody reached twice; exists/depth consistent with completed subscriptions. In addition tens of thousands of SMALL histories (2-4 threads x 2-4 operations after a short prologue) are '
        'decided completely: a backtracking search looks for a total order that respects real time and, replayed on the sequential SubjectRouter, reproduces every result (notify: return value and set of '
        'observers reached; exists; depth); none found = not linearizable, search budget exhausted = inconclusive. A third mode churns the tree at full speed (no callback sleeps) with the key space '
        'partitioned among the threads, so that every result of exists / depth / notify is known exactly. non-trivial = history containing a judged notify that overlapped a subscribe/unsubscribe of a matching observer; '
        'distinct = fingerprints of the order of operation returns',
        samples, observed=pick(agg, 'histories', 'ops', 'notifies', 'notifiesWithCallbacks', 'callbacks', 'subscribes', 'unsubscribes', 'shrinks', 'existsCalls', 'depthCalls', 'writesOverlappingNotify',
                               'snapshotsJudged', 'snapshotsWithConcurrentWrite', 'missedObserversJudged', 'maxThreads', 'delaysInjected', 'lockParks',
                               'linHistories', 'linOperations', 'linSearchNodes', 'linInconclusive', 'linHistoriesWithOverlap', 'fastChurnCases', 'fastChurnOperations', 'deliveriesEndedByException', 'staleHandleUnsubscribesRejected', 'crowdCases', 'maxSimultaneousDeliveries', 'forwardingCases', 'forwardedDeliveries', 'writesJudgedAgainstForwardedDeliveries')),
    assumptions=['mute/unmute and in-callback invalidation are excluded: the quantifier does not list them and they bypass the lock by design', 'callbacks do not call back into the router',
                 'large histories: every rule is a necessary condition of linearizability (such a check can miss non-linearizable histories that satisfy all four rules); small histories: complete search, the sequential SubjectRouter is the specification'],
    manifest=dict(engine='h_crouter', text='Offline checker over stamped call/return/callback events of real multi-threaded histories: four necessary conditions of linearizability decided exactly per notify '
                  '(many tiny interval problems instead of one NP-hard search) for large histories, and a complete linearizability search against the sequential SubjectRouter for tens of thousands of small '
                  'histories, in monitored and ASan builds; plus modes with exactly known answers: fast churn over a partitioned key space (throwing observers, stale handles), a crowd of more than 255 '
                  'simultaneous deliveries followed by a write, and an observer of one router forwarding into a second one that is being written to.',
                  note='Schedules sampled with delays inside the router\'s lock and CPU pinning; trusted: the stamp counter and the client-boundary recording.',
                  technique='runtime monitoring: offline history checker (interval linearizability conditions) over stamped events'))


# ----------------------------------------------------------------------------- data races (C15)

def race_jobs(tier, seed):
    q = tier == 'quick'
    jobs = []
    reps = 8 if q else 150
    ops = 'ops=%d' % (60000 if q else 120000)
    k = 0
    for variant in ('tsan',):   # clang 14 cannot compile Subject.h (parenthesised aggregate initialisation, P0960)
        for rep in range(reps if variant == 'tsan' else 6):
            for w in range(4):
                jobs.append(Job('h_race', variant, pseed(seed, 'C15', k), w, 1, [ops, 'poolrounds=%d' % (40 if q else 80), 'threadstarts=%d' % (600 if q else 2000)],
                                label='%s/workload%d/rep%d' % (variant, w, rep), tsan=True, timeout=1800))
                k += 1
    return jobs


SPECS['C15'] = dict(
    title='no data races under intended use',
    jobs=race_jobs,
    require={'any': {'lockSections': 50000, 'poolStarts': 1000, 'poolExpiryCycles': 20, 'poolStops': 20, 'routerOps': 10000, 'threadStarts': 500}},
    evidence=lambda agg, samples, distinct, tier: cov(
        agg.get('runs', 0), max(distinct, 0),
        'case = one free-running workload under ThreadSanitizer (gcc, thorough also clang), each repeated because reports vary from run to run: (0) 4-32 threads in read/write sections of one Resource through raw calls '
        'and guards, protecting plain data; (1) ThreadPool with one owner calling start (Runnable and closure)/clear/update/stop/getters while 1-8 workers run tasks, go idle past a 2-6 ms expiry timeout (set before the '
        'first start), expire on update() and are collected; (2) 4-16 threads on ConcurrentSubjectRouter notify/subscribe/unsubscribe/shrink/exists/depth; (3) tulz::Thread start (Runnable, closure, function pointer '
        'with lvalue arguments), polling isFinished()/isRunning(), join. Oracle: report blocks in the TSan log, de-duplicated by the pair of top tulz frames of the two accesses; a report without a tulz frame makes '
        'the run inconclusive. Instrumented accesses are not countable: distinct = distinct (workload, repetition) runs; operations per component are listed under observed',
        samples, observed=pick(agg, 'runs', 'runsResource', 'runsPool', 'runsRouter', 'runsThread', 'lockSections', 'poolTasksRun', 'poolStarts', 'poolUpdates', 'poolStops', 'poolClears', 'poolExpiryCycles',
                               'routerOps', 'routerCallbacks', 'routerDeliveriesEndedByException', 'routerQueriesOfASecondRouterFromCallbacks', 'threadStarts', 'threadPolls', 'maxThreads')),
    assumptions=['only code the workloads reach; TSan decides by happens-before, so the observed order matters little, but its bounded history can miss races between accesses far apart in time',
                 'ThreadPool getters/start/stop from a second thread, setExpiryTimeout while workers exist, mute/unmute through a router handle and in-callback invalidation are not intended use and are not exercised',
                 'the interposer is never linked into this build'],
    manifest=dict(engine='h_race', text='ThreadSanitizer as the oracle over intended-use stress programs of the four threaded components, including worker start-up, expiry and shutdown windows; reports are counted '
                  'from the log (halt_on_error=0) and keyed by the conflicting tulz frames.',
                  note='Limited to reached code and to TSan\'s detection power; harness-side shared state is atomic so that the monitor is not the race.',
                  technique='sanitizer: ThreadSanitizer (happens-before race detection) over intended-use stress workloads'))


for _p, _m in OP_MINIMUMS.items():
    SPECS[_p].setdefault('require', {}).setdefault('any', {}).update(_m)
