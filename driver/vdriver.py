"""Framework part of vcheck: build cache, job runner, report parsing,
known-findings matching, evidence and replay files. Python stdlib only."""
import concurrent.futures as cf
import hashlib, json, os, re, shutil, signal, struct, subprocess, sys, time

VERIF = os.path.dirname(os.path.dirname(os.path.abspath(__file__)))
REPO = os.environ.get('VERIF_REPO', '/repo')
BUILD = os.path.join(VERIF, 'build')
# scratch runs (mutants, sweeps) can redirect what a check writes, so that the committed evidence stays that of /repo
OUTDIR = os.environ.get('VERIF_OUTDIR', VERIF)
NCPU = os.cpu_count() or 4
GUARD = 'TULZ_VERIF'

# ----------------------------------------------------------------------------- build

COMMON = ['-std=c++20', '-g', '-fno-omit-frame-pointer', '-I' + os.path.join(REPO, 'include'), '-D' + GUARD,
          '-Wno-deprecated-declarations', '-w']
SAN = ['-fsanitize=address,undefined', '-fno-sanitize=vptr', '-fno-sanitize=nonnull-attribute', '-fno-sanitize-recover=all']
VARIANTS = {
    # name: (compiler, compile flags, link flags, interposer allowed)
    'asan': ('g++', ['-O1'] + SAN, SAN + ['-ldl', '-rdynamic', '-pthread'], True),
    'asan-O0': ('g++', ['-O0'] + SAN, SAN + ['-ldl', '-rdynamic', '-pthread'], True),
    'asan-clang': ('clang++-14', ['-O1', '-fno-sanitize=object-size', '-stdlib=libstdc++'] + SAN,
                   SAN + ['-ldl', '-rdynamic', '-pthread'], True),
    'mon': ('g++', ['-O2'], ['-ldl', '-rdynamic', '-pthread'], True),
    'mon-ndebug': ('g++', ['-O2', '-DNDEBUG'], ['-ldl', '-rdynamic', '-pthread'], True),
    'tsan': ('g++', ['-O1', '-fsanitize=thread'], ['-fsanitize=thread', '-pthread'], False),
    'tsan-clang': ('clang++-14', ['-O1', '-fsanitize=thread', '-stdlib=libstdc++'], ['-fsanitize=thread', '-pthread'], False),
    'plain': ('g++', ['-O1'], ['-ldl', '-rdynamic', '-pthread'], True),
    # line coverage of the repository's code under the workloads (tools/coverage.py); not used by any check
    'cov': ('g++', ['-O0', '--coverage', '-fprofile-update=atomic'], ['--coverage', '-ldl', '-rdynamic', '-pthread'], True),
}

TULZ_SRC = {
    'resource': ['src/threading/rwp/Resource.cpp'],
    'threading': ['src/threading/rwp/Resource.cpp', 'src/threading/ThreadPool.cpp', 'src/threading/Thread.cpp',
                  'src/threading/Runnable.cpp'],
    'router': ['src/observer/routing/RoutingLevelView.cpp', 'src/observer/routing/RoutingKey.cpp',
               'src/observer/routing/RoutingKeyBuilder.cpp', 'src/observer/routing/SubjectRouter.cpp',
               'src/threading/rwp/Resource.cpp'],
    'fs': ['src/Path.cpp', 'src/File.cpp', 'src/Exception.cpp', 'src/DirectoryVisitor.cpp'],
    'locale': ['src/LocaleInfo.cpp'],
    'none': [],
}


def sha(*parts):
    h = hashlib.sha1()
    for p in parts:
        h.update(p if isinstance(p, bytes) else str(p).encode())
        h.update(b'\0')
    return h.hexdigest()


def file_bytes(p):
    try:
        with open(p, 'rb') as f:
            return f.read()
    except OSError:
        return b'<missing>'


def parse_deps(dfile):
    try:
        txt = open(dfile).read()
    except OSError:
        return None
    txt = txt.replace('\\\n', ' ')
    deps = []
    for line in txt.splitlines():
        if ':' in line:
            deps += line.split(':', 1)[1].split()
    return [d for d in deps if not d.startswith('/usr/')]


def compile_obj(variant, src, extra=()):
    """Compile src for variant if its key (flags + contents of all non-system deps) changed."""
    cc, cflags, _, _ = VARIANTS[variant]
    odir = os.path.join(BUILD, variant)
    os.makedirs(odir, exist_ok=True)
    name = sha(os.path.abspath(src), ' '.join(extra))[:10] + '_' + os.path.basename(src)
    obj, dfile, kfile = [os.path.join(odir, name + e) for e in ('.o', '.d', '.key')]
    cmd = [cc] + COMMON + cflags + list(extra) + ['-MMD', '-MF', dfile, '-c', src, '-o', obj]

    def key():
        deps = parse_deps(dfile)
        if deps is None or not os.path.exists(obj):
            return None
        return sha(' '.join(cmd), *[file_bytes(d) for d in sorted(set(deps))])

    old = key()
    if old is not None and file_bytes(kfile).decode(errors='replace') == old:
        return obj, False, ''
    r = subprocess.run(cmd, capture_output=True, text=True)
    if r.returncode != 0:
        raise BuildError('compile failed: %s\n%s' % (' '.join(cmd), r.stderr[-4000:]))
    with open(kfile, 'w') as f:
        f.write(key() or '')
    return obj, True, r.stderr


class BuildError(Exception):
    pass


def build_engine(engines, name, variant):
    """Returns the path of the (fresh) harness executable.

    Several checks may run at the same time (different properties sharing one engine, or the same engine against
    different source trees), so the build of one variant is serialised by a file lock and the executable that is
    handed out is content addressed: nobody relinks a file that somebody else is about to execute."""
    import fcntl
    odir = os.path.join(BUILD, variant)
    os.makedirs(odir, exist_ok=True)
    with open(os.path.join(odir, '.lock'), 'w') as lk:
        fcntl.flock(lk, fcntl.LOCK_EX)
        prune_objects(odir)
        return build_engine_locked(engines, name, variant)


def prune_objects(odir):
    """Objects compiled from scratch trees that no longer exist (seeded-change runs) are dropped, at most hourly."""
    stamp = os.path.join(odir, '.pruned')
    try:
        if time.time() - os.path.getmtime(stamp) < 3600:
            return
    except OSError:
        pass
    open(stamp, 'w').close()
    for f in os.listdir(odir):
        if not f.endswith('.d'):
            continue
        deps = parse_deps(os.path.join(odir, f)) or []
        srcs = [d for d in deps if d.endswith('.cpp')]
        if srcs and not os.path.exists(srcs[0]):
            for ext in ('.d', '.o', '.key'):
                try:
                    os.unlink(os.path.join(odir, f[:-2] + ext))
                except OSError:
                    pass


def build_engine_locked(engines, name, variant):
    e = engines[name]
    cc, _, lflags, spy_ok = VARIANTS[variant]
    srcs = [os.path.join(VERIF, 'harness', name + '.cpp'), os.path.join(VERIF, 'rt', 'rt.cpp')]
    if e.get('spy') and spy_ok:
        srcs.append(os.path.join(VERIF, 'rt', 'syncspy.cpp'))
    for grp in e.get('tulz', []):
        srcs += [os.path.join(REPO, s) for s in TULZ_SRC[grp]]
    srcs = list(dict.fromkeys(srcs))
    with cf.ThreadPoolExecutor(max_workers=NCPU) as ex:
        res = list(ex.map(lambda s: compile_obj(variant, s, e.get('cflags', []) if s == srcs[0] else ()), srcs))
    objs = [r[0] for r in res]
    lkey = sha(variant, *[file_bytes(o) for o in objs])
    exe = os.path.join(BUILD, variant, name + '.' + lkey[:16])
    if os.path.exists(exe):
        os.utime(exe)
    else:
        tmp = exe + '.tmp%d' % os.getpid()
        cmd = [cc] + objs + ['-o', tmp] + lflags
        r = subprocess.run(cmd, capture_output=True, text=True)
        if r.returncode != 0:
            raise BuildError('link failed: %s\n%s' % (' '.join(cmd), r.stderr[-4000:]))
        os.rename(tmp, exe)
    # executables of other source states: keep them while a concurrent check may still be about to start them
    now = time.time()
    for f in os.listdir(os.path.join(BUILD, variant)):
        path = os.path.join(BUILD, variant, f)
        if f.startswith(name + '.') and path != exe and not f.endswith('.cpp'):
            try:
                if now - os.path.getmtime(path) > 3 * 3600:
                    os.unlink(path)
            except OSError:
                pass
    return exe


# ----------------------------------------------------------------------------- report parsing

def strip_templates(s):
    out, depth = [], 0
    for ch in s:
        if ch == '<':
            depth += 1
        elif ch == '>':
            depth = max(0, depth - 1)
        elif depth == 0:
            out.append(ch)
    return ''.join(out)


def norm_func(fn):
    fn = strip_templates(fn)
    fn = re.sub(r'\(.*$', '', fn)            # parameter list
    fn = re.sub(r'\{lambda.*$', '{lambda}', fn)
    fn = re.sub(r'\s+', ' ', fn).strip()
    fn = fn.split(' ')[-1]                   # drop return type
    return fn


FRAME = re.compile(r'^\s*#(\d+) 0x[0-9a-f]+ (?:in )?(.+?) (/\S+?):(\d+)(?::\d+)?\s*$')


def tulz_site(lines):
    """First frame whose source lies in the repository: 'File.h:func'."""
    for ln in lines:
        m = FRAME.match(ln)
        if m and m.group(3).startswith(REPO + '/'):
            return os.path.basename(m.group(3)) + ':' + norm_func(m.group(2))
    return None


def parse_sanitizer(text):
    """Returns a list of (rule, site, excerpt) found in a stderr / log text."""
    found = []
    lines = text.splitlines()
    i = 0
    while i < len(lines):
        ln = lines[i]
        m = re.search(r'ERROR: AddressSanitizer: ([\w-]+)', ln)
        if m:
            kind = m.group(1)
            if kind == 'attempting':
                m2 = re.search(r'attempting (double-free|free on address which was not malloc)', ln)
                kind = m2.group(1).replace(' ', '-') if m2 else 'bad-free'
            j = i + 1
            block = []
            while j < len(lines) and not lines[j].startswith('SUMMARY:') and j < i + 120:
                block.append(lines[j])
                j += 1
            site = tulz_site(block) or 'no-tulz-frame'
            found.append(('asan:' + kind, site, '\n'.join(lines[i:min(j + 1, i + 40)])))
            i = j
            continue
        if 'ERROR: LeakSanitizer' in ln:
            j = i + 1
            block, sites = [], []
            while j < len(lines) and not lines[j].startswith('SUMMARY:'):
                if lines[j].startswith(('Direct leak', 'Indirect leak')) or j == len(lines) - 1:
                    if block:
                        s = tulz_site(block)
                        if s and s not in sites:
                            sites.append(s)
                    block = []
                else:
                    block.append(lines[j])
                j += 1
            if block:
                s = tulz_site(block)
                if s and s not in sites:
                    sites.append(s)
            for s in sites or ['no-tulz-frame']:
                found.append(('lsan:leak', s, '\n'.join(lines[i:i + 30])))
            i = j
            continue
        m = re.match(r'^(/\S+?):(\d+):(\d+): runtime error: (.*)$', ln)
        if m:
            msg = re.sub(r'0x[0-9a-f]+|-?\d+', 'N', m.group(4))
            msg = re.sub(r"'[^']*'", 'T', msg)[:60]
            block = lines[i + 1:i + 40]
            site = os.path.basename(m.group(1)) if m.group(1).startswith(REPO + '/') else (tulz_site(block) or 'no-tulz-frame')
            if m.group(1).startswith(REPO + '/'):
                fs = tulz_site(block)
                if fs:
                    site = fs
            found.append(('ubsan:' + msg.strip(), site, '\n'.join(lines[i:i + 12])))
        m = re.search(r"^\S+: (/\S+):(\d+): (.*): Assertion `(.*)' failed\.", ln)
        if m:
            found.append(('assert', os.path.basename(m.group(1)) + ':' + m.group(4)[:60], ln))
        i += 1
    return found


TSAN_FRAME = re.compile(r'^\s*#(\d+) (.+?) (/\S+?):(\d+)(?::\d+)? \(.*\)\s*$')


def tsan_site(frames):
    """frames: list of (func, file). First frame in the repository -> 'File.cpp:func'."""
    for fn, path in frames:
        if path.startswith(REPO + '/'):
            return os.path.basename(path) + ':' + norm_func(fn)
    return None


def parse_tsan(text):
    """ThreadSanitizer report blocks -> list of (rule, site, excerpt, has_tulz).
    The key is the pair of top tulz frames of the two conflicting accesses (line numbers stripped)."""
    out = []
    for b in re.split(r'^={18,}\s*$', text, flags=re.M):
        m = re.search(r'WARNING: ThreadSanitizer: ([^\n(]+)', b)
        if not m:
            continue
        kind = m.group(1).strip().replace(' ', '-')
        # sections start with a two-space indented header line; the first two sections are the conflicting accesses
        sections, cur = [], None
        for ln in b.splitlines():
            fm = TSAN_FRAME.match(ln)
            if fm:
                if cur is not None:
                    cur.append((fm.group(2), fm.group(3)))
            elif re.match(r'^  \S', ln):
                cur = []
                sections.append((ln.strip(), cur))
        access = [fr for hdr, fr in sections if re.match(r'(Previous )?(atomic )?(read|write)', hdr, re.I)][:2]
        if len(access) < 2:
            access = [fr for hdr, fr in sections][:2]
        sites = [tsan_site(fr) or 'no-tulz-frame' for fr in access]
        has = any(s != 'no-tulz-frame' for s in sites)
        out.append(('tsan:' + kind, ' <-> '.join(sorted(sites)), b.strip()[:3500], has))
    return out


# ----------------------------------------------------------------------------- known findings

def load_known():
    known, fixed = {}, []
    p = os.path.join(VERIF, 'known_findings.txt')
    if os.path.exists(p):
        for ln in open(p):
            ln = ln.strip()
            if ln.startswith('known:'):
                m = re.match(r'known:\s+property=(\S+)\s+key=(.+?)\s+::\s+(.*)$', ln)
                if m:
                    known[(m.group(1), m.group(2))] = m.group(3)
            elif ln.startswith('fixed:'):
                fixed.append(ln)
    return known, fixed


# ----------------------------------------------------------------------------- jobs

class Job:
    def __init__(self, engine, variant, seed, frm, count, args=(), env=None, timeout=900, label='', valgrind=False,
                 tsan=False, restart=True):
        self.engine, self.variant, self.seed, self.frm, self.count = engine, variant, seed, frm, count
        self.args, self.env, self.timeout, self.label = list(args), dict(env or {}), timeout, label
        self.valgrind, self.tsan, self.restart = valgrind, tsan, restart


class JobResult:
    def __init__(self):
        self.viols = []        # dicts: prop, rule, site, detail, case, seed, job
        self.stats = []        # stats dicts
        self.inconclusive = [] # strings
        self.cases_done = 0
        self.fpfiles = []


SAN_ENV = {
    'ASAN_OPTIONS': 'abort_on_error=1:detect_leaks=1:detect_stack_use_after_return=1:malloc_fill_byte=190:'
                    'max_malloc_fill_size=1048576:allocator_may_return_null=1:handle_abort=0:symbolize=1:new_delete_type_mismatch=0',
    'UBSAN_OPTIONS': 'print_stacktrace=1:halt_on_error=1',
    'LSAN_OPTIONS': 'exitcode=23',
    'ASAN_SYMBOLIZER_PATH': shutil.which('llvm-symbolizer-14') or shutil.which('llvm-symbolizer') or '',
}


def run_job(job, exe, rundir, idx, default_prop):
    """Runs one job, restarting after a crash/deadlock at the following case."""
    res = JobResult()
    frm, end = job.frm, job.frm + job.count
    attempt = 0
    crashes = 0
    while frm < end:
        attempt += 1
        base = os.path.join(rundir, 'job%d_%d' % (idx, attempt))
        out, err, fp = base + '.jsonl', base + '.err', base
        cmd = [exe, '--seed', str(job.seed), '--from', str(frm), '--count', str(end - frm), '--out', out,
               '--prop', default_prop, 'fpfile=' + fp, 'cpubase=%d' % idx] + job.args
        env = dict(os.environ)
        env.update(SAN_ENV)
        if job.tsan:
            env['TSAN_OPTIONS'] = ('halt_on_error=0:history_size=7:second_deadlock_stack=1:exitcode=0:suppressions=' +
                                   os.path.join(VERIF, 'driver', 'tsan.supp') + ':log_path=' + base + '.tsan')
        env.update(job.env)
        if job.valgrind:
            cmd = cmd + ['cpubudget=0']   # CPU time under valgrind is no measure of anything
            cmd = ['valgrind', '--quiet', '--error-exitcode=77', '--leak-check=full', '--errors-for-leak-kinds=definite',
                   '--num-callers=25', '--track-origins=yes'] + cmd
        t0 = time.time()
        with open(err, 'wb') as ef:
            try:
                p = subprocess.run(cmd, stdout=ef, stderr=subprocess.STDOUT, env=env, timeout=job.timeout, cwd=rundir)
                rc = p.returncode
            except subprocess.TimeoutExpired:
                rc = 'timeout'
        lines = []
        if os.path.exists(out):
            for ln in open(out, errors='replace'):
                try:
                    lines.append(json.loads(ln))
                except ValueError:
                    pass
        errtxt = open(err, errors='replace').read()
        stats = [l for l in lines if l.get('t') == 'stats']
        viols = [l for l in lines if l.get('t') == 'viol']
        marks = [l for l in lines if l.get('t') in ('san', 'crash')]
        for v in viols:
            v['job'] = job_desc(job, frm, end - frm)
            res.viols.append(v)
        if os.path.exists(fp + '.fp'):
            res.fpfiles.append(fp + '.fp')
        if job.tsan:
            import glob
            for tf in glob.glob(base + '.tsan*'):
                for rule, site, excerpt, has in parse_tsan(open(tf, errors='replace').read()):
                    if has:
                        res.viols.append(dict(prop=default_prop, rule=rule, site=site, detail=excerpt, case=frm,
                                              seed=job.seed, job=job_desc(job, frm, end - frm)))
                    else:
                        res.inconclusive.append('TSan report without a tulz frame (harness bug?): ' + excerpt[:400])
        if stats and not stats[-1].get('aborted') and not (job.valgrind and rc == 77):
            # the harness went through all its cases; a non-zero status now can only come from a report
            # printed at exit (LeakSanitizer aborts the process when abort_on_error is set)
            res.stats += stats
            res.cases_done += end - frm
            sans = parse_sanitizer(errtxt)
            for rule, site, excerpt in sans:
                res.viols.append(dict(prop=default_prop, rule=rule, site=site, detail=excerpt[:3000], case=-1,
                                      seed=job.seed, job=job_desc(job, frm, end - frm)))
            if rc != 0 and not sans:
                res.inconclusive.append('%s: exit status %r after the final statistics without a parsable report: %s' % (job.label, rc, errtxt[-500:]))
            break
        if job.valgrind and rc == 77:
            res.stats += stats
            res.cases_done += end - frm
            for rule, site, excerpt in parse_valgrind(errtxt):
                res.viols.append(dict(prop=default_prop, rule=rule, site=site, detail=excerpt[:3000], case=-1,
                                      seed=job.seed, job=job_desc(job, frm, end - frm)))
            break
        if rc == 'timeout' or rc == 4:
            res.inconclusive.append('%s: %s (watchdog/timeout, no quiescent state) at %s' % (job.label, rc, job_desc(job, frm, end - frm)))
            break
        # crash, sanitizer abort, deadlock verdict (exit 3) or library assert
        case = marks[-1]['case'] if marks else (viols[-1]['case'] if viols else None)
        crumb = marks[-1].get('crumb', '') if marks else ''
        if rc in (3, 5, 6) and viols:
            pass   # deadlock verdict (3), a monitor violation after which the harness refused to go on (5), or a case that
            #        used up its CPU budget (6): already among viols
        else:
            sans = parse_sanitizer(errtxt)
            if sans:
                for rule, site, excerpt in sans[:1]:
                    res.viols.append(dict(prop=default_prop, rule=rule, site=site, detail=(crumb + '\n' + excerpt)[:3000],
                                          case=case if case is not None else frm, seed=job.seed,
                                          job=job_desc(job, frm, end - frm)))
            elif marks and marks[-1]['t'] == 'crash':
                res.viols.append(dict(prop=default_prop, rule='crash:signal-%s' % marks[-1].get('sig'),
                                      site=(crumb.split(' ')[0] or job.engine), detail=crumb + '\n' + errtxt[-1500:],
                                      case=case, seed=job.seed, job=job_desc(job, frm, end - frm)))
            else:
                res.inconclusive.append('%s: harness exited with %r without a report: %s' % (job.label, rc, errtxt[-600:]))
                break
        crashes += 1
        if rc == 6:
            crashes = max(crashes, 10)   # a loop that does not end: two more attempts at most, each costs a whole CPU budget
        if case is None or not job.restart or crashes >= 12:
            if case is not None:
                res.cases_done += max(0, case - frm)
            break
        res.cases_done += max(0, case - frm + 1)
        frm = case + 1
    return res


def parse_valgrind(text):
    out = []
    blocks = re.split(r'\n(?===\d+== \n|==\d+== $)', text)
    cur = []
    for ln in text.splitlines():
        m = re.match(r'^==\d+== (.*)$', ln)
        if not m:
            continue
        body = m.group(1)
        if body.strip() == '':
            if cur:
                out.append(cur)
            cur = []
        else:
            cur.append(body)
    if cur:
        out.append(cur)
    res = []
    for b in out:
        head = b[0]
        if not re.search(r'Invalid|uninitialised|definitely lost|Mismatched|overlap', head):
            continue
        site = None
        for ln in b[1:]:
            m = re.search(r'(?:at|by) 0x[0-9A-F]+: (.+?) \((\S+?):(\d+)\)', ln)
            if m and not m.group(2).startswith(('vg_', 'h_')):
                src = m.group(2)
                if re.search(r'\.(cpp|h)$', src) and os.path.exists(find_repo_file(src) or ''):
                    site = src + ':' + norm_func(m.group(1))
                    break
        kind = re.sub(r'\d+', 'N', head)[:50]
        res.append(('valgrind:' + kind.strip(), site or 'no-tulz-frame', '\n'.join(b[:30])))
    return res


_repo_files = None


def find_repo_file(basename):
    global _repo_files
    if _repo_files is None:
        _repo_files = {}
        for root in ('src', 'include'):
            for dp, _, fns in os.walk(os.path.join(REPO, root)):
                for fn in fns:
                    _repo_files[fn] = os.path.join(dp, fn)
    return _repo_files.get(basename)


def job_desc(job, frm, count):
    return dict(engine=job.engine, variant=job.variant, seed=job.seed, **{'from': frm}, count=count, args=job.args,
                env=job.env, valgrind=job.valgrind, tsan=job.tsan)


# ----------------------------------------------------------------------------- check runner

def merge_stats(stats):
    agg = {}
    samples = []
    for s in stats:
        for k, v in s.items():
            if k == 'samples':
                samples += v
            elif isinstance(v, bool):
                agg[k] = agg.get(k, False) or v
            elif isinstance(v, (int, float)) and k not in ('seed', 'from', 'count'):
                if k.startswith('max'):
                    agg[k] = max(agg.get(k, 0), v)
                else:
                    agg[k] = agg.get(k, 0) + v
            elif isinstance(v, dict):
                d = agg.setdefault(k, {})
                for kk, vv in v.items():
                    d[kk] = d.get(kk, 0) + vv
    return agg, samples


def count_distinct(fpfiles):
    seen = set()
    for f in fpfiles:
        data = open(f, 'rb').read()
        n = len(data) // 8
        seen.update(struct.unpack('<%dQ' % n, data[:n * 8]))
    return len(seen)


def run_check(specs, engines, prop, tier, seed, keep=False, only_jobs=None):
    t0 = time.time()
    spec = specs[prop]
    jobs = spec['jobs'](tier, seed)
    if only_jobs:
        jobs = only_jobs
    if tier == 'thorough':
        # bounds are case counts; the per-job wall-clock limit is only a safety net (a job that hits it is inconclusive)
        for j in jobs:
            j.timeout = max(j.timeout, 6 * 3600)
    rundir = os.path.join(BUILD, 'run', '%s-%s-%d' % (prop, tier, os.getpid()))
    shutil.rmtree(rundir, ignore_errors=True)
    os.makedirs(rundir)
    inconclusive = []
    exes = {}
    try:
        for j in jobs:
            k = (j.engine, j.variant)
            if k not in exes:
                exes[k] = build_engine(engines, j.engine, j.variant)
    except BuildError as e:
        print('INCONCLUSIVE: build failure\n' + str(e))
        return 2
    results = []
    par = spec.get('parallel', NCPU)
    with cf.ThreadPoolExecutor(max_workers=par) as ex:
        futs = [ex.submit(run_job, j, exes[(j.engine, j.variant)], rundir, i, prop) for i, j in enumerate(jobs)]
        for f in futs:
            results.append(f.result())
    viols, stats, fpfiles, cases = [], [], [], 0
    for r in results:
        viols += r.viols
        stats += r.stats
        fpfiles += r.fpfiles
        inconclusive += r.inconclusive
        cases += r.cases_done
    agg, samples = merge_stats(stats)
    distinct = count_distinct(fpfiles)

    # known-findings matching: every violation key goes through it
    known, _fixed = load_known()
    by_key = {}
    for v in viols:
        key = (v['prop'], '%s|%s' % (v['rule'], v['site']))
        by_key.setdefault(key, []).append(v)
    new_keys, known_hits = [], []
    for key, vs in by_key.items():
        if key in known:
            known_hits.append((key, vs))
        else:
            new_keys.append((key, vs))
    for (p, k), vs in known_hits:
        print('KNOWN-FINDING: property=%s %s (key=%s, seen %d times)' % (p, known[(p, k)], k, len(vs)))

    # evidence
    ev = spec['evidence'](agg, samples, distinct, tier)
    need = spec.get('require', {})
    def observed(field):
        v = agg
        parts = field.split('.', 1) if field.split('.', 1)[0] in agg and isinstance(agg.get(field.split('.', 1)[0]), dict) else [field]
        for part in parts:
            v = v.get(part, 0) if isinstance(v, dict) else 0
        return v if isinstance(v, (int, float)) else 0
    for field, minimum in need.get(tier, need.get('any', {})).items():
        if observed(field) < minimum and not new_keys:
            inconclusive.append('observed too little: %s=%s < %s' % (field, observed(field), minimum))
    evidence = {
        'property_id': prop, 'tier': tier, 'seed': int(seed), 'level': spec.get('level', 'exploration'),
        'coverage': ev, 'assumptions': spec.get('assumptions', []), 'wall_s': round(time.time() - t0, 2),
        'violations': len(new_keys),
        'verdict': 'violated' if new_keys else ('inconclusive' if inconclusive else 'held on what was observed'),
        'known_findings_seen': ['%s %s' % k for k, _ in known_hits],
        'inconclusive_reasons': inconclusive[:10],
        'jobs': len(jobs), 'cases_completed': cases,
    }
    ev.setdefault('evaluations', max(1, cases))
    os.makedirs(os.path.join(OUTDIR, 'evidence'), exist_ok=True)
    with open(os.path.join(OUTDIR, 'evidence', prop + '.json'), 'w') as f:
        json.dump(evidence, f, indent=1)

    # report
    rc = 0
    os.makedirs(os.path.join(OUTDIR, 'replays'), exist_ok=True)
    for (p, k), vs in new_keys:
        v = vs[0]
        name = '%s-%s.json' % (p, sha(k)[:10])
        path = os.path.join(OUTDIR, 'replays', name)
        with open(path, 'w') as f:
            json.dump({'property': p, 'key': k, 'occurrences': len(vs), 'check': prop, 'tier': tier,
                       'violation': v, 'replay': './vcheck replay ' + path}, f, indent=1)
        print('VIOLATION property=%s replay=%s' % (p, path))
        d = ''.join(ch if (ch >= ' ' or ch == '\n') else '\\x%02x' % ord(ch) for ch in v.get('detail', ''))   # keep the terminal and grep happy
        print('  key=%s occurrences=%d case=%s\n  %s' % (k, len(vs), v.get('case'), d[:700].replace('\n', '\n  ')))
        rc = 1
    if rc == 0 and inconclusive:
        for s in inconclusive[:10]:
            print('INCONCLUSIVE: ' + s)
        rc = 2
    print('%s %s: %s; %d jobs, %d cases, evaluations=%s distinct_nontrivial=%s, %.1fs' % (
        prop, tier, evidence['verdict'], len(jobs), cases, ev.get('evaluations'), ev.get('distinct_nontrivial'),
        time.time() - t0))
    if not keep and rc == 0:
        shutil.rmtree(rundir, ignore_errors=True)
    else:
        # keep logs of failing runs, drop bulky fingerprint files
        for f in fpfiles:
            try:
                os.remove(f)
            except OSError:
                pass
    return rc


def replay(specs, engines, path):
    rec = json.load(open(path))
    v = rec['violation']
    jd = v['job']
    case = v.get('case', jd['from'])
    if case is None or case < 0:
        case, count = jd['from'], jd['count']
    else:
        count = 1
    sens = engines[jd['engine']].get('schedule_sensitive')
    # deterministic engines: the one case. Schedule-sensitive engines: the case several times, then the whole
    # slice of cases the job ran (same seed, same perturbation), because the witness depends on timing.
    plan = [(case, count)] * (6 if sens else 1) + ([(jd['from'], jd['count'])] * 4 if sens else [])
    prop = rec.get('check', rec['property'])
    tries = len(plan)
    exe = build_engine(engines, jd['engine'], jd['variant'])
    for t, (frm, cnt) in enumerate(plan):
        job = Job(jd['engine'], jd['variant'], jd['seed'], frm, cnt, jd['args'], jd['env'], valgrind=jd.get('valgrind', False),
                  tsan=jd.get('tsan', False), restart=False, label='replay')
        rundir = os.path.join(BUILD, 'run', 'replay-%d' % os.getpid())
        shutil.rmtree(rundir, ignore_errors=True)
        os.makedirs(rundir)
        r = run_job(job, exe, rundir, 0, prop)
        hits = [x for x in r.viols if '%s|%s' % (x['rule'], x['site']) == rec['key']]
        others = [x for x in r.viols if x not in hits]
        shutil.rmtree(rundir, ignore_errors=True)
        if hits:
            print('REPRODUCED (attempt %d, cases %d..%d): property=%s key=%s\n%s' % (t + 1, frm, frm + cnt - 1, rec['property'], rec['key'], hits[0].get('detail', '')[:2000]))
            return 1
        if others:
            print('different violation on replay: %s' % json.dumps(others[0])[:1500])
            return 1
    print('not reproduced in %d attempt(s) (schedule-dependent witnesses may need more)' % tries)
    return 0


def main(argv):
    sys.path.insert(0, os.path.dirname(os.path.abspath(__file__)))
    import specs as S
    if not argv or argv[0] in ('-h', '--help'):
        print(__doc__ or 'see vcheck')
        return 0
    cmd = argv[0]
    if cmd == 'list':
        for p in sorted(S.SPECS):
            print(p, S.SPECS[p]['title'])
        return 0
    if cmd == 'build':
        names = argv[1:] or sorted(S.ENGINES)
        ok = 0
        for n in names:
            for variant in S.ENGINES[n].get('setup_variants', ['asan']):
                try:
                    t = time.time()
                    build_engine(S.ENGINES, n, variant)
                    print('built %s [%s] %.1fs' % (n, variant, time.time() - t))
                except BuildError as e:
                    print(str(e))
                    ok = 2
        return ok
    if cmd == 'replay':
        return replay(S.SPECS, S.ENGINES, argv[1])
    if cmd == 'run':
        prop = argv[1]
        tier = os.environ.get('VERIF_TIER', 'quick')
        keep = False
        i = 2
        while i < len(argv):
            if argv[i] == '--tier':
                tier = argv[i + 1]
                i += 1
            elif argv[i] == '--keep':
                keep = True
            i += 1
        seed = int(os.environ.get('VERIF_SEED', '0') or 0)
        if seed == 0:
            seed = 20261002 if tier == 'quick' else 20261003
        if prop not in S.SPECS:
            print('unknown property ' + prop)
            return 2
        return run_check(S.SPECS, S.ENGINES, prop, tier, seed, keep)
    print('unknown command ' + cmd)
    return 2
