// Strong definitions that must exist exactly once per harness executable.
#include "rt.h"

// AddressSanitizer calls this (if defined) right before it prints a report:
// ties the report to the case that was executing.
extern "C" void __asan_on_error() {
    char buf[512];
    int n = snprintf(buf, sizeof buf, "{\"t\":\"san\",\"case\":%" PRIu64 ",\"crumb\":\"", rt::st().curCase.load());
    for (const char *p = rt::st().crumb; *p && n < 480; ++p)
        buf[n++] = (*p == '"' || *p == '\\' || (unsigned char) *p < 0x20) ? '?' : *p;
    n += snprintf(buf + n, sizeof buf - n, "\"}\n");
    ssize_t r = write(rt::st().outFd, buf, n);
    (void) r;
}
