// Monitoring runtime shared by every harness: PRNG streams, JSON-lines
// reporting, breadcrumbs for crash attribution, common argument parsing.
//
// Protocol with the driver (vcheck): the harness appends one JSON object per
// line to the file named by --out (O_APPEND, one write(2) per line, so lines
// from several threads and from signal handlers never interleave):
//   {"t":"viol","prop":..,"rule":..,"site":..,"detail":..,"case":..,"seed":..}
//   {"t":"crash","sig":..,"case":..,"crumb":..}         (from the signal handler)
//   {"t":"san","case":..,"crumb":..}                    (from __asan_on_error)
//   {"t":"stats", ...}                                  (exactly once, at the end)
// A run without a stats line did not finish and is never counted as "held".
#pragma once
#include <atomic>
#include <cinttypes>
#include <csignal>
#include <cstdarg>
#include <cstdint>
#include <cstdio>
#include <cstdlib>
#include <cstring>
#include <fcntl.h>
#include <sys/time.h>
#include <map>
#include <string>
#include <unistd.h>
#include <vector>

namespace rt {

// ---------------------------------------------------------------- PRNG
inline uint64_t mix64(uint64_t z) {
    z += 0x9e3779b97f4a7c15ULL;
    z = (z ^ (z >> 30)) * 0xbf58476d1ce4e5b9ULL;
    z = (z ^ (z >> 27)) * 0x94d049bb133111ebULL;
    return z ^ (z >> 31);
}
inline uint64_t mix(uint64_t a, uint64_t b) { return mix64(mix64(a) ^ (b * 0xd6e8feb86659fd93ULL)); }

struct Rng {
    uint64_t s;
    explicit Rng(uint64_t seed = 1) : s(seed) {}
    uint64_t next() { return s = mix64(s); }
    // uniform in [0, n)
    uint64_t below(uint64_t n) { return n ? next() % n : 0; }
    // uniform in [lo, hi]
    int64_t range(int64_t lo, int64_t hi) { return lo + (int64_t) below((uint64_t) (hi - lo + 1)); }
    bool chance(unsigned permille) { return below(1000) < permille; }
    template<class T> const T &pick(const std::vector<T> &v) { return v[below(v.size())]; }
};

// ---------------------------------------------------------------- JSON
inline void jsonEscape(std::string &o, const char *s, size_t n) {
    for (size_t i = 0; i < n; ++i) {
        unsigned char c = (unsigned char) s[i];
        switch (c) {
            case '"': o += "\\\""; break;
            case '\\': o += "\\\\"; break;
            case '\n': o += "\\n"; break;
            case '\r': o += "\\r"; break;
            case '\t': o += "\\t"; break;
            default:
                if (c < 0x20 || c >= 0x7f) {
                    char b[8];
                    snprintf(b, sizeof b, "\\u%04x", c);
                    o += b;
                } else o += (char) c;
        }
    }
}

// Tiny append-only JSON object writer.
class Json {
public:
    Json() : m_s("{") {}
    Json &kv(const char *k, const std::string &v) { key(k); m_s += '"'; jsonEscape(m_s, v.data(), v.size()); m_s += '"'; return *this; }
    Json &kv(const char *k, const char *v) { return kv(k, std::string(v)); }
    Json &kv(const char *k, uint64_t v) { key(k); m_s += std::to_string(v); return *this; }
    Json &kv(const char *k, int64_t v) { key(k); m_s += std::to_string(v); return *this; }
    Json &kv(const char *k, int v) { return kv(k, (int64_t) v); }
    Json &kv(const char *k, unsigned v) { return kv(k, (uint64_t) v); }
    Json &kv(const char *k, double v) { key(k); char b[40]; snprintf(b, sizeof b, "%.6g", v); m_s += b; return *this; }
    Json &kv(const char *k, bool v) { key(k); m_s += v ? "true" : "false"; return *this; }
    // raw: v must already be valid JSON (array/object)
    Json &raw(const char *k, const std::string &v) { key(k); m_s += v; return *this; }
    std::string str() const { return m_s + "}"; }
private:
    void key(const char *k) { if (m_s.size() > 1) m_s += ','; m_s += '"'; m_s += k; m_s += "\":"; }
    std::string m_s;
};

inline std::string jsonArray(const std::vector<std::string> &items, bool quote) {
    std::string s = "[";
    for (size_t i = 0; i < items.size(); ++i) {
        if (i) s += ',';
        if (quote) { s += '"'; jsonEscape(s, items[i].data(), items[i].size()); s += '"'; }
        else s += items[i];
    }
    return s + "]";
}
inline std::string jsonCounts(const std::map<std::string, uint64_t> &m) {
    std::string s = "{";
    bool first = true;
    for (auto &[k, v] : m) {
        if (!first) s += ',';
        first = false;
        s += '"'; jsonEscape(s, k.data(), k.size()); s += "\":" + std::to_string(v);
    }
    return s + "}";
}

// ---------------------------------------------------------------- state
struct State {
    int outFd = 1;
    uint64_t seed = 1;
    uint64_t from = 0, count = 1;
    std::string prop;                        // property the driver asked for
    std::map<std::string, std::string> opt;  // remaining key=value arguments
    std::atomic<uint64_t> violations{0};
    std::atomic<uint64_t> curCase{0};
    char crumb[256] = {0};
    uint64_t maxViolDetail = 40;             // stop printing details after this many
    long cpuBudget = 0;                      // seconds of CPU time per case (single-threaded engines), 0 = none
};
inline State &st() { static State s; return s; }

inline void emitLine(const std::string &line) {
    std::string l = line + "\n";
    ssize_t r = write(st().outFd, l.data(), l.size());
    (void) r;
}

// Single-threaded, deterministic engines give every case a budget of CPU time (not wall-clock time: load does not
// count). Their cases take milliseconds, the largest fixed scenarios some tens of seconds; a case that burns the whole
// budget is a loop that does not end in the code under test, and is reported as such instead of as a timeout.
inline void cpuBudgetHandler(int) {
    char buf[1000];
    int n = snprintf(buf, sizeof buf, "{\"t\":\"viol\",\"prop\":\"%s\",\"rule\":\"no-termination\",\"site\":\"cpu-budget\",\"case\":%" PRIu64 ",\"seed\":%" PRIu64 ",\"detail\":\"the case used up its budget of %ld s of CPU time (cases of this engine take milliseconds to seconds): an operation of the code under test does not return. Last step: ",
                     st().prop.c_str(), st().curCase.load(), st().seed, st().cpuBudget);
    for (const char *p = st().crumb; *p && n < 940; ++p)
        buf[n++] = (*p == '"' || *p == '\\' || (unsigned char) *p < 0x20) ? '?' : *p;
    n += snprintf(buf + n, sizeof buf - n, "\"}\n");
    ssize_t r = write(st().outFd, buf, n);
    (void) r;
    _exit(6);
}
inline void armCpuBudget() {
    if (st().cpuBudget <= 0) return;
    struct itimerval it{};
    it.it_value.tv_sec = st().cpuBudget;
    setitimer(ITIMER_VIRTUAL, &it, nullptr);
}
// called once by the single-threaded engines after init()
inline void cpuBudgetPerCase(long seconds) {
    auto it = st().opt.find("cpubudget");
    st().cpuBudget = it == st().opt.end() ? seconds : strtol(it->second.c_str(), nullptr, 0);
    if (st().cpuBudget <= 0) return;
    struct sigaction sa{};
    sa.sa_handler = cpuBudgetHandler;
    sa.sa_flags = SA_ONSTACK;
    sigemptyset(&sa.sa_mask);
    sigaction(SIGVTALRM, &sa, nullptr);
}
inline void setCase(uint64_t c) { st().curCase.store(c, std::memory_order_relaxed); armCpuBudget(); }
inline void crumb(const char *fmt, ...) {
    va_list ap;
    va_start(ap, fmt);
    vsnprintf(st().crumb, sizeof(st().crumb), fmt, ap);
    va_end(ap);
}

// A monitor found a violation of `prop`. `rule` names the oracle rule, `site`
// the operation class it was found at (both without numbers that vary from
// run to run: together they are the known-findings key).
inline void violation(const char *prop, const char *rule, const char *site, const std::string &detail) {
    uint64_t n = st().violations.fetch_add(1) + 1;
    if (n > st().maxViolDetail) return;
    emitLine(Json().kv("t", "viol").kv("prop", prop).kv("rule", rule).kv("site", site)
                 .kv("detail", detail).kv("case", st().curCase.load()).kv("seed", st().seed).str());
}

inline void crashHandler(int sig) {
    // async-signal-safe: fixed buffer, write(2) only
    char buf[512];
    int n = snprintf(buf, sizeof buf, "{\"t\":\"crash\",\"sig\":%d,\"case\":%" PRIu64 ",\"crumb\":\"", sig,
                     st().curCase.load());
    for (const char *p = st().crumb; *p && n < 480; ++p)
        buf[n++] = (*p == '"' || *p == '\\' || (unsigned char) *p < 0x20) ? '?' : *p;
    n += snprintf(buf + n, sizeof buf - n, "\"}\n");
    ssize_t r = write(st().outFd, buf, n);
    (void) r;
    signal(sig, SIG_DFL);
    raise(sig);
}

// The handler runs on an alternate stack: a stack overflow (runaway recursion in the code under test) must still leave
// its crash line behind instead of killing the process silently. Called for the main thread by init() and for every
// thread the interposer starts.
struct AltStack {
    char *mem = nullptr;
    void install() {
        if (mem) return;
        const size_t sz = 64 * 1024;
        mem = (char *) malloc(sz);
        if (!mem) return;
        stack_t ss{};
        ss.ss_sp = mem;
        ss.ss_size = sz;
        sigaltstack(&ss, nullptr);
    }
    ~AltStack() {
        if (!mem) return;
        stack_t ss{};
        ss.ss_flags = SS_DISABLE;
        sigaltstack(&ss, nullptr);
        free(mem);
    }
};
inline void installAltStack() {
    static thread_local AltStack a;
    a.install();
}
inline void installCrashHandlers() {
    installAltStack();
    for (int sig : {SIGSEGV, SIGBUS, SIGFPE, SIGILL, SIGABRT}) {
        struct sigaction sa{};
        sa.sa_handler = crashHandler;
        sa.sa_flags = SA_ONSTACK | SA_NODEFER;
        sigemptyset(&sa.sa_mask);
        sigaction(sig, &sa, nullptr);
    }
}

inline long optInt(const char *k, long dflt) {
    auto it = st().opt.find(k);
    return it == st().opt.end() ? dflt : strtol(it->second.c_str(), nullptr, 0);
}
inline std::string optStr(const char *k, const char *dflt) {
    auto it = st().opt.find(k);
    return it == st().opt.end() ? dflt : it->second;
}

// Common arguments: --seed N --from A --count N --out FILE --prop Cxx key=value...
inline void init(int argc, char **argv) {
    auto &s = st();
    for (int i = 1; i < argc; ++i) {
        std::string a = argv[i];
        auto need = [&](const char *) { return std::string(i + 1 < argc ? argv[++i] : ""); };
        if (a == "--seed") s.seed = strtoull(need("seed").c_str(), nullptr, 0);
        else if (a == "--from") s.from = strtoull(need("from").c_str(), nullptr, 0);
        else if (a == "--count") s.count = strtoull(need("count").c_str(), nullptr, 0);
        else if (a == "--prop") s.prop = need("prop");
        else if (a == "--out") {
            std::string p = need("out");
            int fd = open(p.c_str(), O_WRONLY | O_CREAT | O_APPEND, 0644);
            if (fd >= 0) s.outFd = fd;
        } else if (auto eq = a.find('='); eq != std::string::npos) s.opt[a.substr(0, eq)] = a.substr(eq + 1);
    }
    installCrashHandlers();
}

// Final line. `extra` carries the engine's counters.
inline void finish(Json extra) {
    extra.kv("t", "stats").kv("seed", st().seed).kv("from", st().from).kv("count", st().count)
        .kv("violations", st().violations.load());
    emitLine(extra.str());
    // After a monitor violation the engines abandon the objects of the failed case instead of running
    // more library code on them: the leak report at exit would only repeat that. Leave without it.
    if (st().violations.load() > 0) _exit(0);
}

// MemAvailable from /proc/meminfo (0 if unknown): scenarios that need gigabytes are skipped, not failed, on small machines
inline uint64_t memAvailableBytes() {
    FILE *f = fopen("/proc/meminfo", "r");
    if (!f) return 0;
    char line[256];
    uint64_t kb = 0;
    while (fgets(line, sizeof line, f))
        if (sscanf(line, "MemAvailable: %" SCNu64 " kB", &kb) == 1) break;
    fclose(f);
    return kb * 1024;
}

// FNV-1a style incremental hash for fingerprints
struct Hash {
    uint64_t h = 0xcbf29ce484222325ULL;
    void add(uint64_t v) { h = (h ^ v) * 0x100000001b3ULL; h ^= h >> 29; }
    uint64_t get() const { return mix64(h); }
};

// Writes 64-bit fingerprints to <out>.fp (binary) so the driver can count
// distinct cases across processes.
inline void dumpFingerprints(const std::vector<uint64_t> &fps, const char *suffix = ".fp") {
    std::string p = optStr("fpfile", "");
    if (p.empty()) return;
    p += suffix;
    FILE *f = fopen(p.c_str(), "ab");
    if (!f) return;
    fwrite(fps.data(), sizeof(uint64_t), fps.size(), f);
    fclose(f);
}

} // namespace rt

