#ifndef _GNU_SOURCE
#define _GNU_SOURCE
#endif
#include "syncspy.h"

#include <cstdio>
#include <cstdlib>
#include <cstring>
#include <ctime>
#include <cerrno>
#include <dlfcn.h>
#include <pthread.h>
#include <signal.h>
#include <sched.h>
#include <sys/syscall.h>
#include <unistd.h>

#if defined(__SANITIZE_THREAD__)
#error "syncspy must never be linked into a ThreadSanitizer build"
#endif

namespace spy {
namespace {

using MutexFn = int (*)(pthread_mutex_t *);
using CondWaitFn = int (*)(pthread_cond_t *, pthread_mutex_t *);
using CondFn = int (*)(pthread_cond_t *);
using CreateFn = int (*)(pthread_t *, const pthread_attr_t *, void *(*)(void *), void *);
using JoinFn = int (*)(pthread_t, void **);

MutexFn realLock, realUnlock;
CondWaitFn realCondWait;
CondFn realSignal, realBroadcast;
CreateFn realCreate;
JoinFn realJoin;
std::atomic<int> resolved{0};

void *sym(const char *name, const char *ver) {
    void *p = ver ? dlvsym(RTLD_NEXT, name, ver) : nullptr;
    if (!p) p = dlsym(RTLD_NEXT, name);
    if (!p) {
        fprintf(stderr, "syncspy: cannot resolve %s\n", name);
        _exit(2);
    }
    return p;
}

void resolve() {
    if (resolved.load(std::memory_order_acquire)) return;
    realLock = (MutexFn) sym("pthread_mutex_lock", nullptr);
    realUnlock = (MutexFn) sym("pthread_mutex_unlock", nullptr);
    realCondWait = (CondWaitFn) sym("pthread_cond_wait", "GLIBC_2.3.2");
    realSignal = (CondFn) sym("pthread_cond_signal", "GLIBC_2.3.2");
    realBroadcast = (CondFn) sym("pthread_cond_broadcast", "GLIBC_2.3.2");
    realCreate = (CreateFn) sym("pthread_create", nullptr);
    realJoin = (JoinFn) sym("pthread_join", nullptr);
    resolved.store(1, std::memory_order_release);
}

constexpr int kTable = 1 << 15;
ThreadRec *table() {
    static ThreadRec *t = new ThreadRec[kTable];   // never freed: threads may outlive statics
    return t;
}
std::atomic<int> highWater{0};
std::atomic<uint64_t> gSeq{0};
std::atomic<uint64_t> gEvents{0};

struct Range {
    std::atomic<uintptr_t> lo{0}, hi{0};
};
constexpr int kRanges = 32;
Range ranges[kRanges];
std::atomic<int> nRanges{0};

Delays gDelays;
std::atomic<int> delaysOn{0};
std::atomic<uint64_t> gSeed{1};
Counters gCounters;

thread_local ThreadRec *tSelf = nullptr;
thread_local bool tFailNextCreate = false;
std::atomic<uint64_t> gCreateFailures{0};

inline uint64_t xs(uint64_t &s) {
    s ^= s << 13;
    s ^= s >> 7;
    s ^= s << 17;
    return s;
}

void sleepUs(unsigned us) {
    timespec ts{(time_t) (us / 1000000), (long) (us % 1000000) * 1000};
    clock_nanosleep(CLOCK_MONOTONIC, 0, &ts, nullptr);
}

void doDelay(ThreadRec *t, unsigned maxUs) {
    if (maxUs >= 1000000) { sleepUs(maxUs); return; }   // a delay of seconds is asked for by name: take all of it, asleep
    uint64_t r = xs(t->rng);
    unsigned us = maxUs ? (unsigned) ((r >> 8) % (maxUs + 1)) : 0;
    switch (r % 3) {
        case 0:
            for (unsigned i = 0, n = 1 + us % 4; i < n; ++i) sched_yield();
            break;
        case 1: {
            timespec a, b;
            clock_gettime(CLOCK_MONOTONIC, &a);
            do clock_gettime(CLOCK_MONOTONIC, &b);
            while ((b.tv_sec - a.tv_sec) * 1000000L + (b.tv_nsec - a.tv_nsec) / 1000 < (long) us);
            break;
        }
        default:
            sleepUs(us);
    }
}

inline bool maybeDelay(ThreadRec *t, unsigned permille, unsigned maxUs, std::atomic<uint64_t> &ctr) {
    if (!permille || !delaysOn.load(std::memory_order_relaxed)) return false;
    if (xs(t->rng) % 1000 >= permille) return false;
    ctr.fetch_add(1, std::memory_order_relaxed);
    doDelay(t, maxUs);
    return true;
}

struct Tramp {
    void *(*fn)(void *);
    void *arg;
    ThreadRec *rec;   // allocated by the creator: the thread exists for the monitor before its first instruction
};

ThreadRec *allocRecord();
void adoptRecord(ThreadRec *r);

void *trampoline(void *p) {
    Tramp tr = *static_cast<Tramp *>(p);
    delete static_cast<Tramp *>(p);
    adoptRecord(tr.rec);
    ThreadRec *t = self();
    // crash lines must survive a stack overflow on this thread too (see rt::installCrashHandlers)
    const size_t altSize = 64 * 1024;
    char *alt = (char *) malloc(altSize);
    if (alt) { stack_t ss{}; ss.ss_sp = alt; ss.ss_size = altSize; sigaltstack(&ss, nullptr); }
    maybeDelay(t, gDelays.threadStart, gDelays.threadStartMaxUs, gCounters.threadStart);
    void *r = tr.fn(tr.arg);
    maybeDelay(t, gDelays.threadExit, gDelays.threadStartMaxUs, gCounters.threadExit);
    if (alt) { stack_t ss{}; ss.ss_flags = SS_DISABLE; sigaltstack(&ss, nullptr); free(alt); }
    t->park.store(None);
    t->finished.store(1);
    return r;
}

// monitor
std::atomic<int> monitorOn{0};
pthread_t monitorThread;
DeadlockFn gOnDeadlock = nullptr;
unsigned gWatchdogSec = 300;
std::atomic<uint64_t> gProgress{0};

char taskState(int tid) {
    char path[64], buf[512];
    snprintf(path, sizeof path, "/proc/self/task/%d/stat", tid);
    FILE *f = fopen(path, "r");
    if (!f) return '?';
    size_t n = fread(buf, 1, sizeof buf - 1, f);
    fclose(f);
    buf[n] = 0;
    char *rp = strrchr(buf, ')');
    return (rp && rp[1] == ' ') ? rp[2] : '?';
}

const char *parkName(int p) {
    switch (p) {
        case None: return "running";
        case MutexLock: return "mutex_lock";
        case CondPre: return "cond_wait(pre-block)";
        case CondBlocked: return "cond_wait";
        case Join: return "join";
    }
    return "?";
}

void *monitorMain(void *) {
    timespec t0;
    clock_gettime(CLOCK_MONOTONIC, &t0);
    uint64_t lastEvents = ~0ULL, lastProgress = ~0ULL;
    int streak = 0;
    timespec lastProgressAt = t0;
    while (monitorOn.load()) {
        sleepUs(20000);
        int hw = highWater.load();
        int unfinished = 0;
        bool allParked = true;
        for (int i = 0; i < hw && allParked; ++i) {
            ThreadRec &r = table()[i];
            if (!r.used.load()) continue;
            int fin = r.finished.load();
            if (fin == 2) continue;                       // known to be gone
            if (fin == 1) {
                // The start routine has returned, but the kernel task may still be on its way out (TLS
                // destructors, or simply preempted on a loaded machine) and whoever joins it cannot
                // proceed before it is gone: as long as the task exists the process is not quiescent.
                char st = taskState(r.tid.load());
                if (st == '?') r.finished.store(2);
                else allParked = false;
                continue;
            }
            ++unfinished;
            int p = r.park.load();
            if (p == None || p == CondPre) allParked = false;
            else if (taskState(r.tid.load()) != 'S') allParked = false;
        }
        uint64_t ev = gEvents.load();
        if (unfinished > 0 && allParked && ev == lastEvents) ++streak;
        else streak = 0;
        lastEvents = ev;
        if (streak >= 5) {
            std::string d;
            for (int i = 0; i < hw; ++i) {
                ThreadRec &r = table()[i];
                if (!r.used.load() || r.finished.load()) continue;
                char b[160];
                snprintf(b, sizeof b, "[thread#%d role=%d %s on %s%p] ", i, r.role.load(), parkName(r.park.load()),
                         watched(r.parkAddr.load()) ? "watched " : "", r.parkAddr.load());
                d += b;
            }
            if (gOnDeadlock) gOnDeadlock(d);
            _exit(3);
        }
        timespec now;
        clock_gettime(CLOCK_MONOTONIC, &now);
        uint64_t pr = gProgress.load() + ev;
        if (pr != lastProgress) {
            lastProgress = pr;
            lastProgressAt = now;
        }
        // wall clock only ever yields "inconclusive"
        if ((unsigned) (now.tv_sec - lastProgressAt.tv_sec) > gWatchdogSec) {
            fprintf(stderr, "syncspy: watchdog: no progress for %u s without a quiescent state: INCONCLUSIVE\n",
                    gWatchdogSec);
            _exit(4);
        }
    }
    return nullptr;
}

} // namespace

uint64_t stamp() { return gSeq.fetch_add(1, std::memory_order_seq_cst) + 1; }
uint64_t events() { return gEvents.load(); }

namespace {
ThreadRec *allocRecord() {
    ThreadRec *t = table();
    int hw = highWater.load();
    int idx = -1;
    // reuse a recycled slot first
    for (int i = 0; i < hw; ++i) {
        int exp = 0;
        if (t[i].used.load(std::memory_order_relaxed) == 0 && t[i].used.compare_exchange_strong(exp, 1)) {
            idx = i;
            break;
        }
    }
    if (idx < 0) {
        idx = highWater.fetch_add(1);
        if (idx >= kTable) {
            fprintf(stderr, "syncspy: thread table exhausted\n");
            _exit(2);
        }
        t[idx].used.store(1);
    }
    ThreadRec &r = t[idx];
    r.finished.store(0);
    r.tid.store(0);
    r.role.store(-1);
    r.park.store(None);
    r.parkAddr.store(nullptr);
    r.firstWatchedPark = 0;
    r.watchedParks = 0;
    r.rng = (gSeed.load() * 0x9e3779b97f4a7c15ULL) ^ ((uint64_t) (idx + 1) * 0xbf58476d1ce4e5b9ULL) ^ gSeq.load();
    if (!r.rng) r.rng = 1;
    r.index = idx;
    return &r;
}
void adoptRecord(ThreadRec *r) {
    r->tid.store((int) syscall(SYS_gettid));
    tSelf = r;
}
} // namespace

ThreadRec *self() {
    if (tSelf) return tSelf;
    adoptRecord(allocRecord());
    return tSelf;
}

static inline ThreadRec *selfIfRegistered() { return tSelf; }
ThreadRec *thread(int index) { return &table()[index]; }
int threadCount() { return highWater.load(); }
int unfinishedThreadsWithRole(int role) {
    int n = 0, hw = highWater.load();
    for (int i = 0; i < hw; ++i) {
        ThreadRec &r = table()[i];
        if (r.used.load() && !r.finished.load() && r.role.load() == role) ++n;
    }
    return n;
}

// Frees the records of finished threads for reuse. Call only while no thread
// other than the caller (and the monitor) exists.
void recycle() {
    int hw = highWater.load();
    for (int i = 0; i < hw; ++i) {
        ThreadRec &r = table()[i];
        if (r.used.load() && r.finished.load()) {
            r.finished.store(0);
            r.used.store(0);
        }
    }
}

void watch(const void *base, size_t len) {
    int n = nRanges.load();
    if (n >= kRanges) return;
    ranges[n].lo.store((uintptr_t) base);
    ranges[n].hi.store((uintptr_t) base + len);
    nRanges.store(n + 1);
}
void unwatchAll() { nRanges.store(0); }
bool watched(const void *p) {
    uintptr_t a = (uintptr_t) p;
    for (int i = 0, n = nRanges.load(std::memory_order_acquire); i < n; ++i)
        if (a >= ranges[i].lo.load(std::memory_order_relaxed) && a < ranges[i].hi.load(std::memory_order_relaxed))
            return true;
    return false;
}

int parkedOn(const void *base, size_t len) {
    int n = 0, hw = highWater.load();
    uintptr_t lo = (uintptr_t) base, hi = lo + len;
    for (int i = 0; i < hw; ++i) {
        ThreadRec &r = table()[i];
        if (!r.used.load() || r.finished.load()) continue;
        int p = r.park.load();
        uintptr_t a = (uintptr_t) r.parkAddr.load();
        if ((p == CondPre || p == CondBlocked) && ((a >= lo && a < hi) || r.scope.load(std::memory_order_relaxed))) ++n;
    }
    return n;
}

void configure(const Delays &d, uint64_t seed) {
    gDelays = d;
    gSeed.store(seed ? seed : 1);
    delaysOn.store(1);
    if (tSelf) tSelf->rng ^= seed * 0x2545f4914f6cdd1dULL;
}
void disableDelays() { delaysOn.store(0); }
Counters &counters() { return gCounters; }

void startMonitor(DeadlockFn onDeadlock, unsigned watchdogSec) {
    resolve();
    gOnDeadlock = onDeadlock;
    gWatchdogSec = watchdogSec;
    monitorOn.store(1);
    realCreate(&monitorThread, nullptr, monitorMain, nullptr);   // not registered in the table
}
void stopMonitor() {
    if (!monitorOn.exchange(0)) return;
    realJoin(monitorThread, nullptr);
}
void noteProgress() { gProgress.fetch_add(1, std::memory_order_relaxed); }
void failNextCreate() { tFailNextCreate = true; }
void cancelFailNextCreate() { tFailNextCreate = false; }
uint64_t createFailuresInjected() { return gCreateFailures.load(); }

void pinCpus(int n, int base) {
    cpu_set_t set;
    CPU_ZERO(&set);
    long ncpu = sysconf(_SC_NPROCESSORS_ONLN);
    if (n <= 0 || n > ncpu) n = (int) ncpu;
    for (int i = 0; i < n; ++i) CPU_SET((base * 4 + i) % ncpu, &set);
    sched_setaffinity(0, sizeof set, &set);   // inherited by threads created afterwards
}

} // namespace spy

// ------------------------------------------------------------ interposed symbols
using namespace spy;

extern "C" {

int pthread_mutex_lock(pthread_mutex_t *m) {
    resolve();
    ThreadRec *t = nullptr;
    if (!watched(m)) {
        t = selfIfRegistered();
        if (!t || !t->scope.load(std::memory_order_relaxed)) return realLock(m);
    }
    if (!t) t = self();
    gEvents.fetch_add(1, std::memory_order_relaxed);
    maybeDelay(t, gDelays.beforeLock, gDelays.maxUs, gCounters.beforeLock);
    t->parkAddr.store(m, std::memory_order_relaxed);
    t->park.store(MutexLock);
    int r = realLock(m);
    t->park.store(None);
    return r;
}

int pthread_mutex_unlock(pthread_mutex_t *m) {
    resolve();
    int r = realUnlock(m);
    bool w = watched(m);
    if (!w) {
        ThreadRec *t = selfIfRegistered();
        w = t && t->scope.load(std::memory_order_relaxed);
    }
    if (w) {
        gEvents.fetch_add(1, std::memory_order_relaxed);
        maybeDelay(self(), gDelays.afterUnlock, gDelays.maxUs, gCounters.afterUnlock);
    }
    return r;
}

int pthread_cond_wait(pthread_cond_t *c, pthread_mutex_t *m) {
    resolve();
    ThreadRec *t = self();
    bool w = watched(c) || t->scope.load(std::memory_order_relaxed);
    gEvents.fetch_add(1, std::memory_order_relaxed);
    gCounters.condWaits.fetch_add(1, std::memory_order_relaxed);
    uint64_t s = stamp();   // taken while the caller still holds m
    if (w) {
        gCounters.watchedCondWaits.fetch_add(1, std::memory_order_relaxed);
        ++t->watchedParks;
        if (!t->firstWatchedPark) t->firstWatchedPark = s;
    }
    t->parkAddr.store(c, std::memory_order_relaxed);
    t->parkStamp.store(s, std::memory_order_relaxed);
    t->park.store(CondPre);
    // the caller has evaluated its predicate and still holds the mutex: "about to block"
    if (w) maybeDelay(t, gDelays.condEntry, gDelays.maxUs, gCounters.condEntry);
    if (w && gDelays.spurious && delaysOn.load(std::memory_order_relaxed) && xs(t->rng) % 1000 < gDelays.spurious) {
        // spurious wake-up: the wait gives the mutex up, comes back without a notification and holds the mutex again
        gCounters.spurious.fetch_add(1, std::memory_order_relaxed);
        realUnlock(m);
        doDelay(t, gDelays.maxUs);
        realLock(m);
        t->park.store(None);
        gEvents.fetch_add(1, std::memory_order_relaxed);
        return 0;
    }
    t->park.store(CondBlocked);
    int r = realCondWait(c, m);
    t->park.store(None);
    gEvents.fetch_add(1, std::memory_order_relaxed);
    // A woken waiter that is slow to get going again. Releasing and re-taking
    // the mutex without touching state is what a spurious wake-up looks like,
    // so this cannot make a predicate loop misbehave.
    if (w && gDelays.afterWake && delaysOn.load(std::memory_order_relaxed) && xs(t->rng) % 1000 < gDelays.afterWake) {
        gCounters.afterWake.fetch_add(1, std::memory_order_relaxed);
        realUnlock(m);
        doDelay(t, gDelays.maxUs);
        realLock(m);
    }
    return r;
}

int pthread_cond_signal(pthread_cond_t *c) {
    resolve();
    if (watched(c)) {
        gEvents.fetch_add(1, std::memory_order_relaxed);
        maybeDelay(self(), gDelays.beforeNotify, gDelays.maxUs, gCounters.beforeNotify);
    }
    return realSignal(c);
}

int pthread_cond_broadcast(pthread_cond_t *c) {
    resolve();
    if (watched(c)) {
        gEvents.fetch_add(1, std::memory_order_relaxed);
        maybeDelay(self(), gDelays.beforeNotify, gDelays.maxUs, gCounters.beforeNotify);
    }
    return realBroadcast(c);
}

int pthread_create(pthread_t *th, const pthread_attr_t *attr, void *(*fn)(void *), void *arg) {
    resolve();
    gEvents.fetch_add(1, std::memory_order_relaxed);
    if (tFailNextCreate) {
        tFailNextCreate = false;
        gCreateFailures.fetch_add(1, std::memory_order_relaxed);
        return EAGAIN;   // what the real call reports when no further thread can be created
    }
    gCounters.creates.fetch_add(1, std::memory_order_relaxed);
    auto *tr = new Tramp{fn, arg, allocRecord()};
    int r = realCreate(th, attr, trampoline, tr);
    if (r != 0) {
        tr->rec->used.store(0);
        delete tr;
    } else {
        maybeDelay(self(), gDelays.afterCreate, gDelays.threadStartMaxUs, gCounters.afterCreate);
    }
    return r;
}

int pthread_join(pthread_t th, void **ret) {
    resolve();
    ThreadRec *t = self();
    gEvents.fetch_add(1, std::memory_order_relaxed);
    gCounters.joins.fetch_add(1, std::memory_order_relaxed);
    t->parkAddr.store(nullptr, std::memory_order_relaxed);
    t->park.store(Join);
    int r = realJoin(th, ret);
    t->park.store(None);
    gEvents.fetch_add(1, std::memory_order_relaxed);
    return r;
}

} // extern "C"
