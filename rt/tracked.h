// Lifetime registry: an element type whose every construction, assignment,
// move and destruction is checked against a registry keyed by an object id
// stored *inside* the object (never by address), so that bitwise relocation
// (memcpy / realloc, which RingBuffer and Array do by design) is invisible,
// but "destructor ran on the wrong slot", "destroyed twice", "live value
// abandoned" and "live value overwritten by placement-new" are not.
//
// Single-threaded use only (container engines).
#pragma once
#include "rt.h"
#include <initializer_list>
#include <vector>

namespace rt {

struct LifeRegistry {
    enum : uint8_t { Live = 1, Shell = 2, Dead = 3 };
    std::vector<uint8_t> state;   // index = oid
    std::vector<int64_t> value;
    int64_t live = 0;             // objects currently holding a value
    uint64_t ctor = 0, dtor = 0, moves = 0, shellDtor = 0;
    const char *prop = "C09";     // property the violations are attributed to
    const char *site = "";        // operation class being executed (set by the engine)
    std::string (*context)() = nullptr;   // witness supplied by the engine (operation history)

    static LifeRegistry &get() { static LifeRegistry r; return r; }

    void reset() { state.assign(1, Dead); value.assign(1, 0); live = 0; }
    uint64_t add(uint8_t st, int64_t v) {
        if (state.empty()) reset();
        state.push_back(st);
        value.push_back(v);
        if (st == Live) ++live;
        ++ctor;
        return state.size() - 1;
    }
    bool known(uint64_t oid) const { return oid > 0 && oid < state.size(); }
    void fail(const char *rule, const std::string &d) { violation(prop, rule, site, context ? d + " | " + context() : d); }
};

constexpr uint64_t kTrackedMagic = 0x54524b4c49564531ULL;   // "TRKLIVE1"
constexpr uint64_t kTrackedPoison = 0xdeadfa11deadfa11ULL;

class Tracked {
public:
    static constexpr int64_t kDefault = -777;

    Tracked() : m_magic(kTrackedMagic), m_oid(R().add(LifeRegistry::Live, kDefault)), m_heap(mk()) {}
    explicit Tracked(int64_t v) : m_magic(kTrackedMagic), m_oid(R().add(LifeRegistry::Live, v)), m_heap(mk()) {}
    // Two constructors that a careless T{args...} instead of T(args...) would confuse (like std::vector<int>(3, 30)
    // versus std::vector<int>{3, 30}): the values they produce differ.
    Tracked(int64_t a, int64_t b) : m_magic(kTrackedMagic), m_oid(R().add(LifeRegistry::Live, pairValue(a, b))), m_heap(mk()) {}
    Tracked(std::initializer_list<int64_t> il) : m_magic(kTrackedMagic), m_oid(R().add(LifeRegistry::Live, -4000000 - (int64_t) il.size())), m_heap(mk()) {}
    static int64_t pairValue(int64_t a, int64_t b) { return a * 1000003 + b; }

    Tracked(const Tracked &o) : m_magic(kTrackedMagic) {
        uint8_t s = o.check("copy-from");
        bool lv = s == LifeRegistry::Live;
        m_oid = R().add(lv ? LifeRegistry::Live : LifeRegistry::Shell, lv ? R().value[o.m_oid] : 0);
        m_heap = lv ? mk() : nullptr;
    }

    Tracked(Tracked &&o) noexcept : m_magic(kTrackedMagic) {
        uint8_t s = o.check("move-from");
        bool lv = s == LifeRegistry::Live;
        m_oid = R().add(lv ? LifeRegistry::Live : LifeRegistry::Shell, lv ? R().value[o.m_oid] : 0);
        m_heap = o.m_heap;
        o.m_heap = nullptr;
        if (lv) { R().state[o.m_oid] = LifeRegistry::Shell; --R().live; }
        ++R().moves;
    }

    Tracked &operator=(const Tracked &o) {
        if (this == &o) return *this;
        uint8_t d = check("assign-to");
        uint8_t s = o.check("assign-from");
        if (d == 0 || s == 0) return *this;
        release();
        if (s == LifeRegistry::Live) {
            R().state[m_oid] = LifeRegistry::Live;
            R().value[m_oid] = R().value[o.m_oid];
            ++R().live;
            m_heap = mk();
        }
        return *this;
    }

    Tracked &operator=(Tracked &&o) noexcept {
        if (this == &o) return *this;
        uint8_t d = check("assign-to");
        uint8_t s = o.check("move-assign-from");
        if (d == 0 || s == 0) return *this;
        release();
        if (s == LifeRegistry::Live) {
            R().state[m_oid] = LifeRegistry::Live;
            R().value[m_oid] = R().value[o.m_oid];
            R().state[o.m_oid] = LifeRegistry::Shell;
            m_heap = o.m_heap;
            o.m_heap = nullptr;
            // live count unchanged: one gained, one lost
        }
        ++R().moves;
        return *this;
    }

    ~Tracked() {
        uint8_t s = check("destroy");
        if (s != 0) {
            if (s == LifeRegistry::Live) --R().live; else ++R().shellDtor;
            R().state[m_oid] = LifeRegistry::Dead;
            ++R().dtor;
            std::free(m_heap);
        }
        // volatile: GCC's lifetime dead-store elimination would drop plain stores here
        *(volatile uint64_t *) &m_magic = kTrackedPoison;
    }

    // value as seen through the registry; reports if this is not a live element
    int64_t get(const char *what = "read") const {
        uint8_t s = check(what);
        if (s != LifeRegistry::Live) {
            if (s) R().fail("element-not-live", std::string(what) + ": object " + std::to_string(m_oid) + " is a moved-from shell");
            return INT64_MIN;
        }
        return R().value[m_oid];
    }
    void set(int64_t v) {
        if (check("write") == LifeRegistry::Live) R().value[m_oid] = v;
    }
    uint64_t oid() const { return m_oid; }
    bool isLive() const { return m_magic == kTrackedMagic && R().known(m_oid) && R().state[m_oid] == LifeRegistry::Live; }
    bool operator==(const Tracked &o) const { return get("compare") == o.get("compare"); }

private:
    static LifeRegistry &R() { return LifeRegistry::get(); }
    static char *mk() { return static_cast<char *>(std::malloc(1)); }

    // returns the registry state, or 0 after reporting
    uint8_t check(const char *what) const {
        if (m_magic != kTrackedMagic) {
            char b[160];
            snprintf(b, sizeof b, "%s on storage that holds no element (magic=%016" PRIx64 ")", what, m_magic);
            R().fail(m_magic == kTrackedPoison ? "use-of-destroyed-element" : "not-an-element", b);
            return 0;
        }
        if (!R().known(m_oid)) {
            R().fail("not-an-element", std::string(what) + ": unknown object id");
            return 0;
        }
        uint8_t s = R().state[m_oid];
        if (s == LifeRegistry::Dead) {
            R().fail("use-of-destroyed-element", std::string(what) + ": object " + std::to_string(m_oid) +
                                                     " was already destroyed (bitwise duplicate destroyed twice?)");
            return 0;
        }
        return s;
    }
    void release() {
        if (R().state[m_oid] == LifeRegistry::Live) {
            --R().live;
            std::free(m_heap);
            m_heap = nullptr;
        }
        R().state[m_oid] = LifeRegistry::Shell;
    }

    uint64_t m_magic;
    uint64_t m_oid;
    char *m_heap;   // owned: makes double destroy / abandonment visible to ASan / LSan as well
};

} // namespace rt
