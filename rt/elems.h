// Element types used by the container engines, with a uniform way to build
// an element from an integer and to read the integer back (INT64_MIN+k when
// the element is damaged).
#pragma once
#include "tracked.h"
#include <cmath>
#include <cstring>
#include <string>

namespace rt {

struct Pod24 {
    int64_t a;
    int32_t b;
    char c[12];
    bool operator==(const Pod24 &o) const { return a == o.a && b == o.b && memcmp(c, o.c, 12) == 0; }
};
static_assert(sizeof(Pod24) == 24);

template<class T> struct Elem;
template<> struct Elem<int> {
    static constexpr const char *name = "int";
    static int make(int64_t v) { return (int) v; }
    static int64_t val(const int &x) { return x; }
};
template<> struct Elem<Pod24> {
    static constexpr const char *name = "pod24";
    static Pod24 make(int64_t v) {
        Pod24 p;
        p.a = v;
        p.b = (int32_t) ((uint64_t) v * 3 + 1);
        for (int i = 0; i < 12; ++i) p.c[i] = (char) (v + i);
        return p;
    }
    static int64_t val(const Pod24 &p) {
        static const Pod24 zero{};
        if (memcmp(&p, &zero, sizeof p) == 0) return INT64_MIN + 7;   // a value-initialised element, distinct from garbage
        if (p.b != (int32_t) ((uint64_t) p.a * 3 + 1)) return INT64_MIN + 1;   // (unsigned: garbage must not overflow here)
        for (int i = 0; i < 12; ++i) if (p.c[i] != (char) (p.a + i)) return INT64_MIN + 2;
        return p.a;
    }
};
template<> struct Elem<Tracked> {
    static constexpr const char *name = "tracked";
    static Tracked make(int64_t v) { return Tracked(v); }
    static int64_t val(const Tracked &t) { return t.get(); }
};
template<> struct Elem<std::string> {
    static constexpr const char *name = "string";
    static std::string make(int64_t v) {
        std::string s = "v" + std::to_string(v);
        if (v % 3) s += "-a-suffix-long-enough-to-leave-the-small-buffer";   // heap-backed
        return s;
    }
    static int64_t val(const std::string &s) {
        if (s.size() < 2 || s[0] != 'v') return INT64_MIN + 3;
        int64_t v = strtoll(s.c_str() + 1, nullptr, 10);
        return s == make(v) ? v : INT64_MIN + 4;
    }
};

// Same lifetime tracking, but the move operations are not noexcept: code that picks copy-vs-move by
// std::move_if_noexcept / is_nothrow_move_constructible takes its other branch for this type.
struct TrackedThrowingMove : Tracked {
    TrackedThrowingMove() = default;
    explicit TrackedThrowingMove(int64_t v) : Tracked(v) {}
    TrackedThrowingMove(int64_t a, int64_t b) : Tracked(a, b) {}
    TrackedThrowingMove(std::initializer_list<int64_t> il) : Tracked(il) {}
    TrackedThrowingMove(const TrackedThrowingMove &) = default;
    TrackedThrowingMove(TrackedThrowingMove &&o) noexcept(false) : Tracked(std::move(static_cast<Tracked &>(o))) {}
    TrackedThrowingMove &operator=(const TrackedThrowingMove &) = default;
    TrackedThrowingMove &operator=(TrackedThrowingMove &&o) noexcept(false) { Tracked::operator=(std::move(static_cast<Tracked &>(o))); return *this; }
};
static_assert(!std::is_nothrow_move_constructible_v<TrackedThrowingMove>);
template<> struct Elem<TrackedThrowingMove> {
    static constexpr const char *name = "tracked-throwing-move";
    static TrackedThrowingMove make(int64_t v) { return TrackedThrowingMove(v); }
    static int64_t val(const TrackedThrowingMove &t) { return t.get(); }
};

template<> struct Elem<double> {
    static constexpr const char *name = "double";
    // every eleventh value is one of the two zeros: -0.0 == +0.0, only the representation tells them apart
    static double make(int64_t v) {
        int64_t m = ((v % 11) + 11) % 11;
        if (m == 3) return -0.0;
        if (m == 4) return 0.0;
        return (double) v + 0.25;
    }
    static int64_t val(const double &x) {
        if (x == 0) return std::signbit(x) ? INT64_MIN + 20 : INT64_MIN + 21;
        return x == (double) (int64_t) (x - 0.25) + 0.25 ? (int64_t) (x - 0.25) : INT64_MIN + 5;
    }
};
template<> struct Elem<unsigned char> {
    static constexpr const char *name = "byte";
    static unsigned char make(int64_t v) { return (unsigned char) (v & 0xff); }
    static int64_t val(const unsigned char &x) { return x; }
    static int64_t norm(int64_t v) { return v & 0xff; }
};

} // namespace rt
