// Harness-side pthread interposer: park table, legal delay injection,
// global event stamps and the quiescence (deadlock) oracle. tulz itself is
// not modified: std::mutex / std::condition_variable / std::thread reach the
// definitions in syncspy.cpp because the executable is searched first.
//
// NEVER link this into a ThreadSanitizer build (TSan would stop seeing the
// synchronisation and report false races).
#pragma once
#include <atomic>
#include <cstddef>
#include <cstdint>
#include <string>

namespace spy {

enum Park : int {
    None = 0,
    MutexLock = 1,    // inside pthread_mutex_lock
    CondPre = 2,      // entered cond_wait, mutex still held (predicate evaluated, not yet blocked)
    CondBlocked = 3,  // inside the real pthread_cond_wait
    Join = 4,         // inside pthread_join
};

constexpr int kMaxThreads = 512;

struct ThreadRec {
    std::atomic<int> used{0};
    std::atomic<int> finished{0};
    std::atomic<int> tid{0};            // kernel tid
    std::atomic<int> role{-1};          // set by the harness (worker index etc.)
    std::atomic<int> park{None};
    std::atomic<const void *> parkAddr{nullptr};
    std::atomic<uint64_t> parkStamp{0};
    // Set by the harness while the thread is inside a call of the component under test: every mutex and condition
    // variable it touches then counts as watched, wherever the implementation keeps them (a refactoring may move
    // them out of the watched object, e.g. into queue nodes).
    std::atomic<int> scope{0};
    // thread-private bookkeeping, read by the owning thread only
    uint64_t firstWatchedPark = 0;      // stamp of first cond_wait entry on a watched condvar since reset
    uint64_t watchedParks = 0;          // number of cond_wait entries on watched condvars
    uint64_t rng = 0;
    int index = -1;
};

// global monotonic stamp; every recorded event and every intercepted call draws one
uint64_t stamp();
uint64_t events();                       // number of intercepted synchronisation calls so far

ThreadRec *self();                       // record of the calling thread (registers it on first use)
ThreadRec *thread(int index);
int threadCount();                       // records handed out so far
int unfinishedThreadsWithRole(int role);  // threads started through the interposer whose start routine has not yet returned (or that are still leaving)
// Frees the records of finished threads for reuse; call only while no other workload thread exists.
void recycle();

// Address ranges whose mutexes/condvars are "watched": only those get delays,
// and only cond_waits on them count as parks for firstWatchedPark.
void watch(const void *base, size_t len);
void unwatchAll();
bool watched(const void *p);

// Number of threads currently inside cond_wait (pre or blocked) on a watched condvar within [base, base+len)
int parkedOn(const void *base, size_t len);

struct Delays {
    // probabilities in permille, per site; maxUs = upper bound of one injected delay
    unsigned beforeLock = 0, afterUnlock = 0, condEntry = 0, afterWake = 0, beforeNotify = 0, threadStart = 0;
    unsigned spurious = 0;              // a watched cond_wait returns without having been notified (allowed by POSIX and the C++ standard)
    unsigned threadExit = 0;            // a thread whose start routine has returned is slow to leave (it still exists: join() must wait for it)
    unsigned afterCreate = 0;           // the creator is held up right after pthread_create returned (the new thread runs ahead)
    unsigned maxUs = 100;
    unsigned threadStartMaxUs = 1000;
};
void configure(const Delays &d, uint64_t seed);
void disableDelays();

// counters of injected delays per site (evidence)
struct Counters {
    std::atomic<uint64_t> beforeLock{0}, afterUnlock{0}, condEntry{0}, afterWake{0}, beforeNotify{0}, threadStart{0}, afterCreate{0};
    std::atomic<uint64_t> condWaits{0}, watchedCondWaits{0}, creates{0}, joins{0}, spurious{0}, threadExit{0};
};
Counters &counters();

// Quiescence oracle. `onDeadlock` is called from the monitor thread with a
// description of every unfinished thread; it must report and never return
// (the monitor calls _exit(3) after it). `watchdogSec`: wall-clock limit after
// which the run is declared inconclusive (exit code 4), never a violation.
using DeadlockFn = void (*)(const std::string &description);
void startMonitor(DeadlockFn onDeadlock, unsigned watchdogSec);
void stopMonitor();
// harness-defined progress counter the watchdog prints (optional)
void noteProgress();

// Fault injection: the next pthread_create call made by the calling thread fails with EAGAIN (resource exhaustion).
void failNextCreate();
void cancelFailNextCreate();             // disarm (the armed call did not create a thread)
uint64_t createFailuresInjected();

// CPU affinity of the whole process: n = number of CPUs to use (0 = all)
void pinCpus(int n, int base = 0);   // CPUs base, base+1, ... (mod #cpus)

} // namespace spy
